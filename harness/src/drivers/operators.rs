//! Driver for spec module `Operators` (C11 selection, C12 replacement, C17 SA acceptance and
//! cooling): executes the real components through `Component::execute` on a prepared `State`
//! (`Populations`, seeded `Random`, `Temperature`, for SA runs a `BestIndividual`) and records one
//! event per execution with the reply kind and the full projected population stack (bottom first,
//! top last; individuals as `[tag, rank]`), the cooling count of the run's own temperature and the
//! rank of the tracked best individual.  Nothing is judged here; TLC validates the trace.
//!
//! Scenario (mode `replay`, also what mode `random` generates on the fly):
//! `{"run": k, "hdr": {"vals": ["-3", "0", ...], "seed": s, "t0": "2", "alpha": "0.9",
//!   "off": "0.1", "base": "0.5", "cell_n": 0, "t0_in": "77", "alpha_in": "0.5", "cell_op": "sa_accept"},
//!  "acts": [{"op": ..., "n": .., "k": .., "st": [...], "b": -9}, ...]}`
//! (`t0_in` / `alpha_in`: parameters of an SA step executed in a `Scope` of its own, op `nested`).
//! `vals[r]` is the objective value of dense rank r (floats travel as strings and never reach TLC).
use mahf::{
    components::{
        evaluation::BestIndividualUpdate,
        mapping::sa::GeometricCooling,
        replacement::{self, sa::ExponentialAnnealingAcceptance, sa::Temperature},
        selection::{self, functional},
        Component, Scope,
    },
    lens::ValueOf,
    state::common::{BestIndividual, Populations},
    ExecResult, Random, State,
};
use std::{
    sync::{Arc, Mutex},
    time::{Duration, Instant},
};

use rand::{seq::SliceRandom, Rng};
use rand_chacha::ChaCha8Rng;
use serde_json::{json, Value};

use crate::{
    problems_ops::{Ind, TagProblem, Values, INF},
    util::{caught, read_ndjson, rng, Args, Out},
};

type St = State<'static, TagProblem>;

/// Watchdog: an execution of the code under test that does not return within `LIMIT` is data, not
/// a tool failure: the pending record is written with reply kind "timeout" (stack and temperature as
/// they were before the call), the trace is closed and the process ends (the stuck thread cannot be
/// stopped, and it may be allocating without bound).
const LIMIT: Duration = Duration::from_millis(1500);

struct Shared {
    out: Mutex<Out>,
    pending: Mutex<Option<(Instant, Value)>>,
}

fn start_watchdog(sh: Arc<Shared>) {
    std::thread::spawn(move || loop {
        std::thread::sleep(Duration::from_millis(50));
        let hit = match &*sh.pending.lock().unwrap() {
            Some((t, rec)) if t.elapsed() > LIMIT => Some(rec.clone()),
            _ => None,
        };
        if let Some(rec) = hit {
            let mut out = sh.out.lock().unwrap();
            out.emit(&rec);
            let n = out.flush_count();
            println!("{{\"events\":{n},\"timeout\":true}}");
            std::process::exit(0);
        }
    });
}

struct Hdr {
    vals: Values,
    seed: u64,
    t0: f64,
    alpha: f64,
    off: f64,
    base: f64,
    cell_n: u64,
    /// SA step nested in a `Scope` (op `nested`): its own t_0 and cooling factor
    t0_in: f64,
    alpha_in: f64,
    /// which acceptance executions are the trials of the run's frequency cell
    cell_op: String,
    json: Value,
}

impl Hdr {
    fn parse(h: &Value) -> Self {
        let strs: Vec<String> = h["vals"].as_array().unwrap().iter().map(|v| v.as_str().unwrap().to_string()).collect();
        let f = |k: &str, d: f64| h.get(k).and_then(|v| v.as_str()).map(|s| s.parse().expect("float")).unwrap_or(d);
        Self {
            vals: Values::parse(&strs),
            seed: h["seed"].as_u64().unwrap_or(0),
            t0: f("t0", 1.0),
            alpha: f("alpha", 0.5),
            off: f("off", 0.1),
            base: f("base", 0.5),
            cell_n: h.get("cell_n").and_then(|v| v.as_u64()).unwrap_or(0),
            t0_in: f("t0_in", 77.0),
            alpha_in: f("alpha_in", 0.5),
            cell_op: h.get("cell_op").and_then(|v| v.as_str()).unwrap_or("sa_accept").to_string(),
            json: h.clone(),
        }
    }
}

struct Run {
    hdr: Hdr,
    state: St,
    sa_trials: u64,
    p_first: Option<f64>,
    p_changed: bool,
}

fn pop_from(vals: &Values, p: &Value) -> Vec<Ind> {
    p.as_array()
        .unwrap()
        .iter()
        .map(|x| vals.individual(x[0].as_u64().unwrap() as u32, x[1].as_i64().unwrap()))
        .collect()
}

fn project_pop(vals: &Values, pop: &[Ind]) -> Value {
    Value::Array(pop.iter().map(|i| json!([*i.solution(), vals.rank_of(i)])).collect())
}

fn project_stack(vals: &Values, state: &St) -> Value {
    let pops = state.populations();
    let n = pops.len();
    Value::Array((0..n).rev().map(|d| project_pop(vals, pops.peek(d))).collect())
}

/// Number e of exact products with alpha such that T == t0 * alpha^e (same operation the cooling
/// component performs: `value * alpha`); -1 if the temperature is none of these.
fn project_temp(hdr: &Hdr, state: &St) -> i64 {
    let t = match state.try_get_value::<Temperature>() {
        Ok(t) => t,
        Err(_) => return -1,
    };
    let mut x = hdr.t0;
    for e in 0..400 {
        if x.to_bits() == t.to_bits() {
            return e;
        }
        x *= hdr.alpha;
    }
    -1
}

/// Spec: `NoBest`.
const NO_BEST: i64 = -9;

/// Rank of the tracked `BestIndividual` (P-rank), `NO_BEST` if the state tracks none.
fn project_best(vals: &Values, state: &St) -> i64 {
    match state.best_individual() {
        Some(b) => vals.rank_of(&b),
        None => NO_BEST,
    }
}

/// Set-up: the state tracks a best individual of rank `b` (installed by the real update component
/// from a scratch population), or none.  A state that never tracked one is left alone for `NO_BEST`.
fn install_best(run: &mut Run, b: i64) {
    if b == NO_BEST && !run.state.contains::<BestIndividual<TagProblem>>() {
        return;
    }
    let update: Box<dyn Component<TagProblem>> = BestIndividualUpdate::new();
    update.init(&TagProblem, &mut run.state).expect("init");
    if b != NO_BEST {
        run.state.populations_mut().push(vec![run.hdr.vals.individual(9_000, b)]);
        update.execute(&TagProblem, &mut run.state).expect("update");
        run.state.populations_mut().pop();
    }
}

/// P-pred: p = exp(-(f(cand) - f(cur)) / t) for the two top populations and its class.
fn sa_class(run: &Run, t: f64) -> (f64, &'static str) {
    let (fc, fd, ok) = {
        let pops = run.state.populations();
        match (pops.try_peek(1).and_then(|p| p.first()), pops.try_peek(0).and_then(|p| p.first())) {
            (Some(cur), Some(cand)) => (cur.objective().value(), cand.objective().value(), true),
            _ => (0.0, 0.0, false),
        }
    };
    let p = if ok { (-(fd - fc) / t).exp() } else { f64::NAN };
    let pc = if p < 1e-12 {
        "zero"
    } else if p > 1.0 - 1e-12 {
        "one"
    } else {
        "mid" // includes NaN (inf - inf): no constraint from the probability
    };
    (p, pc)
}

fn res(k: &str) -> Value {
    json!({"k": k, "w": []})
}

/// Dense ranks of the weights as numbers (`-0.0` and `+0.0` are the same weight).
fn dense_ranks(w: &[f64]) -> Vec<i64> {
    let same = |a: f64, b: f64| a == b || a.to_bits() == b.to_bits();
    let mut s: Vec<f64> = w.to_vec();
    s.sort_by(|a, b| a.total_cmp(b));
    s.dedup_by(|a, b| same(*a, *b));
    w.iter().map(|x| s.iter().position(|y| same(*y, *x)).unwrap() as i64).collect()
}

fn component(hdr: &Hdr, op: &str, n: u32, k: u32) -> ExecResult<Box<dyn Component<TagProblem>>> {
    Ok(match op {
        "all" => selection::All::new(),
        "none" => selection::None::new(),
        "clone_single" => selection::CloneSingle::new(n),
        "fully_random" => selection::FullyRandom::new(n),
        "without_rep" => selection::RandomWithoutRepetition::new(n),
        "roulette" => selection::RouletteWheel::new(n, hdr.off),
        "sus" => selection::StochasticUniversalSampling::new(n, hdr.off),
        "tournament" => selection::Tournament::new(n, k),
        "linear_rank" => selection::LinearRank::new(n),
        "exp_rank" => selection::ExponentialRank::new(n, hdr.base)?,
        "de_rand" => selection::de::DERand::new(n)?,
        "de_best" => selection::de::DEBest::new(n)?,
        "de_ctb" => selection::de::DECurrentToBest::new(n)?,
        "iwo" => selection::iwo::DeterministicFitnessProportional::new(n, k),
        "discard" => replacement::DiscardOffspring::new(),
        "generational" => replacement::Generational::new(n),
        "merge" => replacement::Merge::new(),
        "mu_plus_lambda" => replacement::MuPlusLambda::new(n),
        "random_repl" => replacement::RandomReplacement::new(n),
        "keep_better" => replacement::KeepBetterAtIndex::new(),
        "sa_accept" => ExponentialAnnealingAcceptance::new(hdr.t0),
        "cool" => GeometricCooling::new(hdr.alpha, ValueOf::<Temperature>::new())?,
        "update_best" => BestIndividualUpdate::new(),
        // an SA step in a scope of its own: n coolings of ITS temperature, then ITS acceptance
        "nested" => {
            let mut body: Vec<Box<dyn Component<TagProblem>>> = Vec::new();
            for _ in 0..n {
                body.push(GeometricCooling::new(hdr.alpha_in, ValueOf::<Temperature>::new())?);
            }
            body.push(ExponentialAnnealingAcceptance::new(hdr.t0_in));
            Scope::new(body)
        }
        other => panic!("unknown op {other}"),
    })
}

fn start_run(hdr: Hdr) -> Run {
    let mut state: St = State::new();
    state.insert(Populations::<TagProblem>::new());
    state.insert(Random::new(hdr.seed));
    // the acceptance component's own `init` installs Temperature(t0)
    let sa: Box<dyn Component<TagProblem>> = ExponentialAnnealingAcceptance::new(hdr.t0);
    sa.init(&TagProblem, &mut state).expect("init");
    Run { hdr, state, sa_trials: 0, p_first: None, p_changed: false }
}

fn reset_rec(run: u64, hdr: &Hdr) -> Value {
    json!({"run": run, "act": act("reset", 0, 0), "res": res("ok"), "stack": [], "temp": 0, "best": NO_BEST, "hdr": hdr.json})
}

fn act(op: &str, n: u64, k: u64) -> Value {
    json!({"op": op, "n": n, "k": k, "st": [], "pc": "-", "lo": 0, "hi": 0, "last": 0, "b": NO_BEST})
}

fn act_st(op: &str, st: Value) -> Value {
    json!({"op": op, "n": 0, "k": 0, "st": st, "pc": "-", "lo": 0, "hi": 0, "last": 0, "b": NO_BEST})
}

/// `load` that also installs a tracked best individual of rank `b`.
fn act_load(st: Value, b: i64) -> Value {
    json!({"op": "load", "n": 0, "k": 0, "st": st, "pc": "-", "lo": 0, "hi": 0, "last": 0, "b": b})
}

/// Acceptance-count bounds for N trials with probability p: 6 sigma + 1 (P-pred, from inputs only).
fn bounds(p: f64, n: u64) -> (i64, i64) {
    let nf = n as f64;
    if p.is_nan() {
        return (0, n as i64);
    }
    if p < 1e-12 {
        return (0, 0);
    }
    if p > 1.0 - 1e-12 {
        return (n as i64, n as i64);
    }
    let mean = nf * p;
    let sd = (nf * p * (1.0 - p)).sqrt();
    let lo = (mean - 6.0 * sd - 1.0).floor().max(0.0) as i64;
    let hi = (mean + 6.0 * sd + 1.0).ceil().min(nf) as i64;
    (lo, hi)
}

/// Executes one act; returns (act as executed, reply, note).
fn exec(run: &mut Run, a: &Value) -> (Value, Value, String) {
    let op = a["op"].as_str().unwrap().to_string();
    let n = a["n"].as_u64().unwrap_or(0) as u32;
    let k = a["k"].as_u64().unwrap_or(0) as u32;
    let mut a = a.clone();
    let mut note = String::new();
    let r = match op.as_str() {
        "load" => {
            let pops: Vec<Vec<Ind>> = a["st"].as_array().unwrap().iter().map(|p| pop_from(&run.hdr.vals, p)).collect();
            {
                let mut stack = run.state.populations_mut();
                while stack.try_pop().is_some() {}
            }
            let b = a.get("b").and_then(|v| v.as_i64()).unwrap_or(NO_BEST);
            a["b"] = json!(b);
            install_best(run, b);
            let mut stack = run.state.populations_mut();
            for p in pops {
                stack.push(p);
            }
            res("ok")
        }
        "set_top" => {
            let p = pop_from(&run.hdr.vals, &a["st"][0]);
            *run.state.populations_mut().current_mut() = p;
            res("ok")
        }
        "weights" | "reverse_rank" => {
            let src: Vec<Ind> = run.state.populations().current().to_vec();
            let off = run.hdr.off;
            let out = caught(|| {
                if op == "weights" {
                    functional::proportional_weights(&src, off, n == 1).map(|w| dense_ranks(&w))
                } else {
                    Some(functional::reverse_rank(&src).into_iter().map(|x| x as i64).collect())
                }
            });
            match out {
                Ok(Some(w)) => json!({"k": "ok", "w": w}),
                Ok(None) => res("none"),
                Err(m) => {
                    note = m;
                    res("panic")
                }
            }
        }
        _ => {
            if op == "sa_accept" || op == "nested" {
                // P-pred: class of p = exp(-(f(cand) - f(cur)) / T), from the inputs only; T is the
                // temperature of the run for `sa_accept`, and for `nested` the temperature the SA in
                // the scope works at: its own t_0 times its own factor, once per cooling it performs
                let t = if op == "sa_accept" {
                    run.state.get_value::<Temperature>()
                } else {
                    (0..n).fold(run.hdr.t0_in, |t, _| t * run.hdr.alpha_in)
                };
                let (p, pc) = sa_class(run, t);
                a["pc"] = json!(pc);
                a["lo"] = json!(0);
                a["hi"] = json!(1_000_000);
                a["last"] = json!(0);
                // trials of the run's frequency cell: the executions of the op the cell is about
                let counted = op == "sa_accept" || (run.hdr.cell_n > 0 && run.hdr.cell_op == "nested");
                if op == "nested" {
                    a["k"] = json!(counted as u64);
                }
                let trial = run.hdr.cell_op == op;
                if trial {
                    run.sa_trials += 1;
                    match run.p_first {
                        None => run.p_first = Some(p),
                        Some(q) => {
                            if q.to_bits() != p.to_bits() {
                                run.p_changed = true
                            }
                        }
                    }
                }
                if trial && run.hdr.cell_n > 0 && run.sa_trials == run.hdr.cell_n && !run.p_changed {
                    let (lo, hi) = bounds(p, run.hdr.cell_n);
                    a["lo"] = json!(lo);
                    a["hi"] = json!(hi);
                    a["last"] = json!(1);
                    a["p"] = json!(format!("{p:e}"));
                }
            }
            if op == "update_best" && !run.state.contains::<BestIndividual<TagProblem>>() {
                // set-up (the template's init phase): the memory exists and is empty
                BestIndividualUpdate::new::<TagProblem>().init(&TagProblem, &mut run.state).expect("init");
            }
            match component(&run.hdr, &op, n, k) {
                Err(e) => {
                    note = format!("constructor: {e}");
                    res("err")
                }
                Ok(c) => {
                    let state = &mut run.state;
                    match caught(|| c.execute(&TagProblem, state)) {
                        Ok(Ok(())) => res("ok"),
                        Ok(Err(e)) => {
                            note = format!("{e}");
                            res("err")
                        }
                        Err(m) => {
                            note = m;
                            res("panic")
                        }
                    }
                }
            }
        }
    };
    (a, r, note)
}

fn emit_step(out: &Arc<Shared>, run_id: u64, i: usize, run: &mut Run, a: &Value) -> Value {
    let before = json!({"run": run_id, "i": i, "act": a, "res": res("timeout"),
                        "stack": project_stack(&run.hdr.vals, &run.state),
                        "temp": project_temp(&run.hdr, &run.state),
                        "best": project_best(&run.hdr.vals, &run.state)});
    *out.pending.lock().unwrap() = Some((Instant::now(), before));
    let (a2, r, note) = exec(run, a);
    *out.pending.lock().unwrap() = None;
    let mut rec = json!({"run": run_id, "i": i, "act": a2, "res": r,
                         "stack": project_stack(&run.hdr.vals, &run.state),
                         "temp": project_temp(&run.hdr, &run.state),
                         "best": project_best(&run.hdr.vals, &run.state)});
    if !note.is_empty() {
        rec["note"] = json!(note.chars().take(160).collect::<String>());
    }
    out.out.lock().unwrap().emit(&rec);
    rec
}

// ------------------------------------------------------------------------------------ random

/// A universe of individuals for one run: tag -> rank (fixed per tag), value table.
struct Universe {
    vals: Vec<String>,
    inds: Vec<(u32, i64)>,
}

fn fmt(v: f64) -> String {
    format!("{v:?}")
}

fn universe(r: &mut ChaCha8Rng, tags: usize) -> Universe {
    // value classes: all positive / all negative / mixed with zero / non-positive with zero
    let nvals = r.gen_range(1..=12usize);
    let class = r.gen_range(0..5);
    let mut vs: Vec<f64> = Vec::new();
    while vs.len() < nvals {
        let mag = 10f64.powi(r.gen_range(-3..=5));
        let x: f64 = (r.gen_range(1..=999) as f64) / 100.0 * mag;
        let v = match class {
            0 => x,
            1 => -x,
            2 => {
                if r.gen_bool(0.5) { x } else { -x }
            }
            3 => {
                if vs.is_empty() { 0.0 } else if r.gen_bool(0.5) { x } else { -x }
            }
            _ => {
                if vs.is_empty() { 0.0 } else { -x }
            }
        };
        if !vs.iter().any(|y| *y == v) {
            vs.push(v);
        }
    }
    vs.sort_by(|a, b| a.total_cmp(b));
    // the value zero: +0.0 for everybody, -0.0 for everybody, or both bit patterns of the same
    // number in one run (sign by tag, see `Values`): a tie for every comparing operator
    let zero = *["0.0", "-0.0", "+-0.0", "-+0.0", "+-0.0", "-+0.0"].choose(r).unwrap();
    let with_inf = r.gen_bool(0.3);
    let inds = (1..=tags as u32)
        .map(|t| {
            let rank = if with_inf && r.gen_bool(0.15) { INF } else { r.gen_range(0..nvals) as i64 };
            (t, rank)
        })
        .collect();
    Universe { vals: vs.into_iter().map(|v| if v == 0.0 { zero.to_string() } else { fmt(v) }).collect(), inds }
}

fn rand_pop(r: &mut ChaCha8Rng, u: &Universe, max: usize) -> Value {
    let len = match r.gen_range(0..10) {
        0 => 0,
        1 => 1,
        2 => 2,
        3 | 4 => r.gen_range(3..=5),
        _ => r.gen_range(0..=max),
    };
    let style = r.gen_range(0..10);
    let mut pop: Vec<(u32, i64)> = Vec::new();
    match style {
        // unique tags
        0..=4 => {
            let mut c = u.inds.clone();
            c.shuffle(r);
            pop.extend(c.into_iter().take(len));
        }
        // all members share one rank (ties everywhere)
        5 => {
            let (_, rk) = *u.inds.choose(r).unwrap();
            let c: Vec<_> = u.inds.iter().filter(|x| x.1 == rk).cloned().collect();
            for _ in 0..len {
                pop.push(*c.choose(r).unwrap());
            }
        }
        // no infinite members, duplicates allowed
        6 | 7 => {
            let c: Vec<_> = u.inds.iter().filter(|x| x.1 != INF).cloned().collect();
            for _ in 0..len {
                pop.push(*c.choose(r).unwrap());
            }
        }
        // anything, duplicates allowed
        _ => {
            for _ in 0..len {
                pop.push(*u.inds.choose(r).unwrap());
            }
        }
    }
    Value::Array(pop.into_iter().map(|(t, k)| json!([t, k])).collect())
}

fn rand_sel(r: &mut ChaCha8Rng, src_len: usize) -> Value {
    let n = match r.gen_range(0..8) {
        0 => 0,
        1 => src_len as u64,
        2 => src_len as u64 + 1,
        3 => src_len.saturating_sub(1) as u64,
        _ => r.gen_range(0..=45),
    };
    match r.gen_range(0..17) {
        0 => act("all", 0, 0),
        1 => act("none", 0, 0),
        2 => act("clone_single", n, 0),
        3 => act("fully_random", n, 0),
        4 | 5 => act("without_rep", n, 0),
        6 => act("roulette", n, 0),
        7 => act("sus", n, 0),
        8 | 9 => {
            let k = match r.gen_range(0..5) {
                0 => src_len as u64,
                1 => src_len as u64 + 1,
                2 => 1,
                _ => r.gen_range(1..=(src_len as u64).max(2)),
            };
            act("tournament", n.min(40), k)
        }
        10 => act("linear_rank", n, 0),
        11 => act("exp_rank", n, 0),
        12 => act("de_rand", r.gen_range(1..=2), 0),
        13 => act("de_best", r.gen_range(1..=2), 0),
        14 => act("de_ctb", r.gen_range(1..=2), 0),
        15 => {
            let lo = r.gen_range(0..=3);
            act("iwo", lo, lo + r.gen_range(0..=4))
        }
        _ => act(if r.gen_bool(0.5) { "weights" } else { "reverse_rank" }, r.gen_range(0..=1), 0),
    }
}

fn rand_repl(r: &mut ChaCha8Rng, total: usize) -> Value {
    let mu = match r.gen_range(0..6) {
        0 => 0,
        1 => total as u64,
        2 => total as u64 + r.gen_range(1..=5),
        3 => 1,
        _ => r.gen_range(0..=(total as u64 + 2)),
    };
    match r.gen_range(0..9) {
        0 => act("discard", 0, 0),
        1 => act("generational", mu, 0),
        2 => act("merge", 0, 0),
        3 | 4 | 5 => act("mu_plus_lambda", mu, 0),
        6 => act("random_repl", mu, 0),
        _ => act("keep_better", 0, 0),
    }
}

fn top_len(run: &Run, d: usize) -> usize {
    run.state.populations().try_peek(d).map(|p| p.len()).unwrap_or(0)
}

fn hdr_json(u: &Universe, seed: u64, r: &mut ChaCha8Rng) -> Value {
    let off = *["0.0", "0.1", "1.0", "2.5"].choose(r).unwrap();
    let base = *["0.5", "0.9", "0.2"].choose(r).unwrap();
    json!({"vals": u.vals, "seed": seed, "t0": "2.0", "alpha": "0.9", "off": off, "base": base, "cell_n": 0})
}

fn random_sel(out: &Arc<Shared>, run_id: u64, seed: u64, len: u64, max: usize) {
    let mut r = rng(seed, run_id);
    let u = universe(&mut r, 60);
    let hdr = Hdr::parse(&hdr_json(&u, r.gen(), &mut r));
    out.out.lock().unwrap().emit(&reset_rec(run_id, &hdr));
    let mut run = start_run(hdr);
    let mut i = 0;
    for _ in 0..len {
        let mut st = vec![];
        if r.gen_bool(0.3) {
            st.push(rand_pop(&mut r, &u, 4));
        }
        st.push(rand_pop(&mut r, &u, max));
        emit_step(out, run_id, i, &mut run, &act_st("load", Value::Array(st)));
        let a = rand_sel(&mut r, top_len(&run, 0));
        emit_step(out, run_id, i + 1, &mut run, &a);
        i += 2;
    }
}

/// Selection pressure: unique tags, distinct ranks, many draws in one execution.
fn random_pressure(out: &Arc<Shared>, run_id: u64, seed: u64, len: u64, draws: u64) {
    let mut r = rng(seed, run_id);
    let u = universe(&mut r, 12);
    let hdr = Hdr::parse(&hdr_json(&u, r.gen(), &mut r));
    out.out.lock().unwrap().emit(&reset_rec(run_id, &hdr));
    let mut run = start_run(hdr);
    let mut i = 0;
    for _ in 0..len {
        let mut c: Vec<_> = u.inds.iter().filter(|x| x.1 != INF).cloned().collect();
        c.shuffle(&mut r);
        let size = r.gen_range(2..=6usize);
        let pop: Vec<Value> = c.into_iter().take(size).map(|(t, k)| json!([t, k])).collect();
        let m = pop.len() as u64;
        emit_step(out, run_id, i, &mut run, &act_st("load", json!([pop])));
        let a = match r.gen_range(0..5) {
            0 => act("roulette", draws, 0),
            1 => act("sus", draws, 0),
            2 => act("tournament", draws, r.gen_range(1..=m)),
            3 => act("linear_rank", draws, 0),
            _ => act("exp_rank", draws, 0),
        };
        emit_step(out, run_id, i + 1, &mut run, &a);
        i += 2;
    }
}

fn random_repl(out: &Arc<Shared>, run_id: u64, seed: u64, len: u64, max: usize) {
    let mut r = rng(seed, run_id);
    let u = universe(&mut r, 60);
    let hdr = Hdr::parse(&hdr_json(&u, r.gen(), &mut r));
    out.out.lock().unwrap().emit(&reset_rec(run_id, &hdr));
    let mut run = start_run(hdr);
    let mut i = 0;
    for _ in 0..len {
        let mut st = vec![];
        if r.gen_bool(0.3) {
            st.push(rand_pop(&mut r, &u, 4));
        }
        let par = rand_pop(&mut r, &u, max);
        let off = if r.gen_bool(0.12) {
            // index-wise ties: every offspring has the objective value (rank) of the parent at its
            // index and, where the universe has one, another tag (zeros: possibly the other sign)
            let tied: Vec<Value> = par
                .as_array()
                .unwrap()
                .iter()
                .map(|p| {
                    let (pt, pk) = (p[0].as_u64().unwrap() as u32, p[1].as_i64().unwrap());
                    let c: Vec<_> = u.inds.iter().filter(|x| x.1 == pk && x.0 != pt).collect();
                    let (t, k) = c.choose(&mut r).map(|x| **x).unwrap_or((pt, pk));
                    json!([t, k])
                })
                .collect();
            Value::Array(tied)
        } else if r.gen_bool(0.35) {
            // same size as the parents (index-wise comparison is usable)
            let n = par.as_array().unwrap().len();
            let mut p = rand_pop(&mut r, &u, max);
            while p.as_array().unwrap().len() != n {
                let a = p.as_array_mut().unwrap();
                if a.len() > n {
                    a.pop();
                } else {
                    let (t, k) = *u.inds.choose(&mut r).unwrap();
                    a.push(json!([t, k]));
                }
            }
            p
        } else {
            rand_pop(&mut r, &u, max)
        };
        st.push(par);
        st.push(off);
        emit_step(out, run_id, i, &mut run, &act_st("load", Value::Array(st)));
        let a = rand_repl(&mut r, top_len(&run, 0) + top_len(&run, 1));
        emit_step(out, run_id, i + 1, &mut run, &a);
        i += 2;
    }
}

/// One survival cell of `RandomReplacement`: `trials` executions on the same parents / offspring
/// (unique tags, ranks from the universe) with the same mu, the generator of the state running on.
/// Which individuals survive is in the recorded stacks; the frequencies are judged by the spec.
fn repl_cell(out: &Arc<Shared>, run_id: u64, seed: u64, par: usize, off: usize, mu: u64, trials: u64) {
    let mut r = rng(seed, run_id);
    let u = universe(&mut r, par + off);
    let mut inds = u.inds.clone();
    inds.shuffle(&mut r);
    let pop = |xs: &[(u32, i64)]| Value::Array(xs.iter().map(|(t, k)| json!([t, k])).collect());
    let stack = json!([pop(&inds[..par]), pop(&inds[par..])]);
    let hdr = Hdr::parse(&hdr_json(&u, r.gen(), &mut r));
    out.out.lock().unwrap().emit(&reset_rec(run_id, &hdr));
    let mut run = start_run(hdr);
    for j in 0..trials as usize {
        emit_step(out, run_id, 2 * j, &mut run, &act_st("load", stack.clone()));
        let mut a = act("random_repl", mu, 0);
        a["pc"] = json!("cell");
        a["lo"] = json!(trials);
        a["last"] = json!((j as u64 + 1 == trials) as u64);
        emit_step(out, run_id, 2 * j + 1, &mut run, &a);
    }
}

/// Survival cells: a single survivor, all but one, small and large fractions, every split of the
/// individuals between parents and offspring (one side empty, one side a single individual),
/// mu = 0 / mu = n / mu > n (nothing random left: short cells), then seeded random shapes.
fn random_repl_cells(out: &Arc<Shared>, first_run: u64, seed: u64, trials: u64, extra: u64) {
    let fixed: [(usize, usize, u64); 14] = [
        (5, 5, 1),
        (6, 4, 3),
        (4, 4, 7),
        (0, 6, 2),
        (6, 0, 2),
        (1, 7, 4),
        (7, 1, 1),
        (3, 3, 3),
        (2, 2, 1),
        (1, 1, 1),
        (2, 9, 10),
        (3, 3, 6),
        (3, 3, 9),
        (4, 2, 0),
    ];
    let mut run_id = first_run;
    for (par, off, mu) in fixed {
        let random_part = mu > 0 && (mu as usize) < par + off;
        repl_cell(out, run_id, seed, par, off, mu, if random_part { trials } else { (trials / 10).max(10) });
        run_id += 1;
    }
    let mut r = rng(seed, 4242);
    for _ in 0..extra {
        let (par, off) = loop {
            let (p, o) = (r.gen_range(0..=8usize), r.gen_range(0..=8usize));
            if p + o >= 2 {
                break (p, o);
            }
        };
        let mu = r.gen_range(1..(par + off) as u64);
        repl_cell(out, run_id, seed, par, off, mu, trials);
        run_id += 1;
    }
}

/// Evolutionary loop on one stack: select from the top population, replace (parents, selection).
fn random_loop(out: &Arc<Shared>, run_id: u64, seed: u64, len: u64, max: usize) {
    let mut r = rng(seed, run_id);
    let u = universe(&mut r, 60);
    let hdr = Hdr::parse(&hdr_json(&u, r.gen(), &mut r));
    out.out.lock().unwrap().emit(&reset_rec(run_id, &hdr));
    let mut run = start_run(hdr);
    let mut i = 0;
    let mut fresh = true;
    for _ in 0..len {
        if fresh || run.state.populations().len() != 1 || top_len(&run, 0) == 0 || top_len(&run, 0) > 60 {
            emit_step(out, run_id, i, &mut run, &act_st("load", json!([rand_pop(&mut r, &u, max)])));
            i += 1;
            fresh = false;
        }
        let a = rand_sel(&mut r, top_len(&run, 0));
        let helper = matches!(a["op"].as_str().unwrap(), "weights" | "reverse_rank");
        let rec = emit_step(out, run_id, i, &mut run, &a);
        i += 1;
        if helper {
            continue;
        }
        if rec["res"]["k"] != "ok" {
            fresh = true;
            continue;
        }
        let a = rand_repl(&mut r, top_len(&run, 0) + top_len(&run, 1));
        let rec = emit_step(out, run_id, i, &mut run, &a);
        i += 1;
        if rec["res"]["k"] != "ok" {
            fresh = true;
        }
    }
}

/// SA in template order (heuristics/sa.rs): All, generation (stand-in: set_top), [constraints: an SA step in a
/// scope of its own refining the candidate], (evaluation), best-individual update, cooling, acceptance.
/// The objective values (and temperatures) of a run live on one of the scales 1e-18 .. 1e18.
fn random_sa_template(out: &Arc<Shared>, run_id: u64, seed: u64, len: u64) {
    let mut r = rng(seed, run_id);
    let mut u = universe(&mut r, 40);
    let scale: f64 = *[1e-18, 1e-9, 1.0, 1.0, 1e9, 1e18].choose(&mut r).unwrap();
    // (the tag-dependent zeros "+-0.0" / "-+0.0" of the value tables stay what they are: zero on every scale)
    u.vals = u.vals.iter().map(|v| match v.parse::<f64>() {
        Ok(x) => fmt(x * scale),
        Err(_) => v.clone(),
    }).collect();
    let mut h = hdr_json(&u, r.gen(), &mut r);
    let scaled = |x: &str| fmt(x.parse::<f64>().unwrap() * scale);
    h["t0"] = json!(scaled(*["2.0", "1e3", "1e-3", "50.0", "1e9"].choose(&mut r).unwrap()));
    h["alpha"] = json!(*["0.9", "0.5", "0.99", "0.1"].choose(&mut r).unwrap());
    h["t0_in"] = json!(scaled(*["3.0e-4", "77.0", "4.1e8"].choose(&mut r).unwrap()));
    h["alpha_in"] = json!(*["0.7", "0.25"].choose(&mut r).unwrap());
    let hdr = Hdr::parse(&h);
    out.out.lock().unwrap().emit(&reset_rec(run_id, &hdr));
    let mut run = start_run(hdr);
    let first = *u.inds.choose(&mut r).unwrap();
    // as the templates start: one evaluated individual, offered to the best-individual update
    emit_step(out, run_id, 0, &mut run, &act_load(json!([[[first.0, first.1]]]), NO_BEST));
    emit_step(out, run_id, 1, &mut run, &act("update_best", 0, 0));
    let mut i = 2;
    let other = |r: &mut ChaCha8Rng, not: u32| loop {
        let c = *u.inds.choose(r).unwrap();
        if c.0 != not {
            break c;
        }
    };
    for _ in 0..len {
        emit_step(out, run_id, i, &mut run, &act("all", 0, 0));
        let cur_tag = run.state.populations().current()[0].solution().clone();
        let cand = other(&mut r, cur_tag);
        emit_step(out, run_id, i + 1, &mut run, &act_st("set_top", json!([[[cand.0, cand.1]]])));
        i += 2;
        if r.gen_bool(0.3) {
            // the candidate is refined by an SA step of its own, in a scope of its own
            emit_step(out, run_id, i, &mut run, &act("all", 0, 0));
            let c2 = other(&mut r, cand.0);
            emit_step(out, run_id, i + 1, &mut run, &act_st("set_top", json!([[[c2.0, c2.1]]])));
            emit_step(out, run_id, i + 2, &mut run, &act("nested", r.gen_range(0..=2), 0));
            i += 3;
        }
        emit_step(out, run_id, i, &mut run, &act("update_best", 0, 0));
        i += 1;
        let cools = match r.gen_range(0..10) {
            0 => 0,
            1 => 2,
            _ => 1,
        };
        for _ in 0..cools {
            emit_step(out, run_id, i, &mut run, &act("cool", 0, 0));
            i += 1;
        }
        emit_step(out, run_id, i, &mut run, &act("sa_accept", 0, 0));
        i += 1;
    }
}

/// What one acceptance trial of a cell looks like.
#[derive(Clone, Copy, PartialEq)]
enum Trial {
    /// load, acceptance at the run's temperature
    Plain,
    /// the state also tracks a best individual that is strictly better than both operands
    Best,
    /// load, an SA step at a far-away temperature in a scope of its own, load, acceptance at the run's temperature
    AfterNested,
    /// load, SA step (one cooling, acceptance) in a scope of its own; the cell is about that step
    Nested,
}

/// One (pair, T) cell: N acceptance trials of the same current/candidate pair at the same T.
fn sa_cell(out: &Arc<Shared>, run_id: u64, seed: u64, cur: f64, cand: f64, t: f64, n: u64, kind: Trial) {
    let (mut vals, mut rc, mut rd): (Vec<f64>, i64, i64) = if cur < cand {
        (vec![cur, cand], 0, 1)
    } else if cur > cand {
        (vec![cand, cur], 1, 0)
    } else {
        (vec![cur], 0, 0)
    };
    let mut best = NO_BEST;
    if kind == Trial::Best {
        // tracked best: below both operands by twice their distance (or by the scale of the values)
        let lo = vals[0];
        let gap = if cur != cand { 2.0 * (cur - cand).abs() } else { lo.abs().max(f64::MIN_POSITIVE) };
        let b = lo - gap;
        if b < lo && b.is_finite() {
            vals.insert(0, b);
            rc += 1;
            rd += 1;
            best = 0;
        }
    }
    let alpha_in = 0.5;
    // Nested: the cell's temperature t is the one the nested SA works at after its single cooling; the enclosing run is
    // frozen (or boiling) far away from it.  AfterNested: the other way round.
    let far = if t < 1.0 { t * 1e21 } else { t * 1e-21 };
    let (t0, t0_in) = match kind {
        Trial::Nested => (far, t / alpha_in),
        Trial::AfterNested => (t, far),
        _ => (t, 77.0),
    };
    let h = json!({"vals": vals.iter().map(|v| fmt(*v)).collect::<Vec<_>>(),
                   "seed": seed.wrapping_mul(1_000_003).wrapping_add(run_id), "t0": fmt(t0),
                   "alpha": "0.5", "off": "0.1", "base": "0.5", "cell_n": n, "t0_in": fmt(t0_in), "alpha_in": fmt(alpha_in),
                   "cell_op": if kind == Trial::Nested { "nested" } else { "sa_accept" }});
    let hdr = Hdr::parse(&h);
    out.out.lock().unwrap().emit(&reset_rec(run_id, &hdr));
    let mut run = start_run(hdr);
    let load = act_load(json!([[[1, rc]], [[2, rd]]]), best);
    let mut i = 0;
    let mut step = |run: &mut Run, a: &Value| {
        emit_step(out, run_id, i, run, a);
        i += 1;
    };
    for _ in 0..n {
        step(&mut run, &load);
        match kind {
            Trial::Plain | Trial::Best => step(&mut run, &act("sa_accept", 0, 0)),
            Trial::AfterNested => {
                step(&mut run, &act("nested", 0, 0));
                step(&mut run, &load);
                step(&mut run, &act("sa_accept", 0, 0));
            }
            Trial::Nested => step(&mut run, &act("nested", 1, 0)),
        }
    }
}

/// The (pair, T) grid.  Worse candidates by d at T = d / x for ratios x from 1e-15 (boiling) to 1e9 (frozen); better and
/// equal candidates at every temperature.  The same on every scale of objective values from 1e-18 to 1e18 (differences far
/// below f64::EPSILON in absolute terms, or far above 1 / EPSILON, but always large or small *relative to T*), for
/// neighbouring floats, around zero and for negative values; with a tracked best individual that differs from the current
/// solution; and with a second SA, at a far-away temperature, working in a scope of its own.
fn random_sa_cells(out: &Arc<Shared>, first_run: u64, seed: u64, n: u64, full: bool) -> u64 {
    let mut run_id = first_run;
    let ratios_all = [1e-15, 1e-9, 1e-3, 0.1, 0.5, 1.0, 2.0, 5.0, 30.0, 1e3, 1e9];
    let ratios_few = [1e-9, 1.0, 1e9];
    let bases: &[f64] = if full { &[-5.0, 0.0, 3.0] } else { &[0.0] };
    let mut r = rng(seed, 777);
    let small = (n / 8).max(10);
    for &d in &[1e-6, 1.0, 1e6] {
        let ratios: &[f64] = if d == 1.0 || full { &ratios_all } else { &ratios_few };
        for &x in ratios {
            let base = *bases.choose(&mut r).unwrap();
            let t = d / x;
            // worse candidate: accepted with probability exp(-d/T)
            sa_cell(out, run_id, seed, base, base + d, t, n, Trial::Plain);
            run_id += 1;
        }
        // better and equal candidates: always accepted, at every temperature
        for &t in &[1e-9, 1.0, 1e9] {
            sa_cell(out, run_id, seed, 0.5 + d, 0.5, t, small, Trial::Plain);
            sa_cell(out, run_id + 1, seed, 0.5, 0.5, t, small, Trial::Plain);
            run_id += 2;
        }
    }
    // --- every scale: (current, candidate) pairs whose difference d is of the order of the values themselves
    let ulp = |x: f64| f64::from_bits(x.to_bits() + 1) - x;
    let mut pairs: Vec<(f64, f64)> = Vec::new();
    for &s in &[1e-18, 1e-12, 1e12, 1e18] {
        pairs.push((s, 3.0 * s));
    }
    if full {
        for &s in &[1e-30, 1e-15, 1e-9, 1e9, 1e15, 1e30] {
            pairs.push((s, 3.0 * s));
        }
        pairs.push((1e-300, 2e-300));
    }
    pairs.push((2e-310, 7e-310)); // subnormal values and temperatures (1 / T overflows there)
    pairs.push((-3e-18, -1e-18)); // negative, tiny
    pairs.push((-1e-17, 1e-17)); // around zero
    pairs.push((0.0, 5e-17)); // from zero
    pairs.push((0.5, 0.5 + ulp(0.5))); // neighbouring floats
    pairs.push((1e18, 1e18 + ulp(1e18)));
    pairs.push((-2.5e18, -1e18)); // negative, huge
    for &(cur, cand) in &pairs {
        let d = cand - cur;
        let ratios: &[f64] = if full { &ratios_all } else { &[1e-9, 1.0, 30.0, 1e9] };
        for &x in ratios {
            let extreme = x < 1e-6 || x > 29.0;
            sa_cell(out, run_id, seed, cur, cand, d / x, if extreme { (n / 4).max(10) } else { n }, Trial::Plain);
            run_id += 1;
        }
        // the other way round the candidate is better; and equal values: always accepted, frozen or boiling
        for &t in &[d * 1e-9, d * 1e9] {
            sa_cell(out, run_id, seed, cand, cur, t, small, Trial::Plain);
            sa_cell(out, run_id + 1, seed, cand, cand, t, small, Trial::Plain);
            run_id += 2;
        }
    }
    // --- near ties far above the temperature: the candidate is worse by one to three units in the last place of the
    // objective values (any magnitude, any mantissa, either sign) while T is far below even that margin (d / T from 28
    // upwards: p < 1e-12, never accepted).  f(S) / T and f(S') / T are then huge numbers that differ in their last places
    // only -- the rule is about the difference of the objective values, which is exact, over T.  Half of the cells sit
    // where the resolution of floats changes (mantissa just below 2, d / T just above a power of two).
    let up = |a: f64, k: u64| if a > 0.0 { f64::from_bits(a.to_bits() + k) } else { f64::from_bits(a.to_bits() - k) };
    for c in 0..(if full { 240 } else { 80 }) {
        let mant: f64 = if c % 2 == 0 { r.gen_range(1.0..2.0) } else { r.gen_range(1.9..2.0) };
        let sign = if c % 7 == 6 { -1.0 } else { 1.0 };
        let cur = sign * mant * 2f64.powi(r.gen_range(-40..=40));
        let cand = up(cur, r.gen_range(1..=3u64));
        let d = cand - cur;
        let x = if c % 4 < 2 { 28.0 * 10f64.powf(r.gen_range(0.0..4.5)) } else { 2f64.powi(r.gen_range(5..=20)) * r.gen_range(1.0..1.1) };
        sa_cell(out, run_id, seed, cur, cand, d / x, 3, Trial::Plain);
        run_id += 1;
    }
    // --- the state tracks a best individual that is not the current solution (every SA run after an accepted
    // worsening move): the decision is about current and candidate
    for &(cur, cand) in &[(1.0, 2.0), (-4.0, -3.5), (1e-18, 3e-18), (1e12, 3e12)] {
        let d: f64 = cand - cur;
        for &x in &[1e-9, 0.5, 1.0, 30.0, 1e9] {
            let extreme = x < 1e-6 || x > 29.0;
            sa_cell(out, run_id, seed, cur, cand, d / x, if extreme { (n / 4).max(10) } else { n }, Trial::Best);
            run_id += 1;
        }
        // better than (or equal to) the current solution, worse than the tracked best: always accepted
        for &t in &[d * 1e-9, d, d * 1e9] {
            sa_cell(out, run_id, seed, cand, cur, t, small, Trial::Best);
            sa_cell(out, run_id + 1, seed, cand, cand, t, small, Trial::Best);
            run_id += 2;
        }
    }
    // --- two SAs in different scopes, each with its own temperature
    for &(cur, cand) in &[(1.0, 2.0), (1e-18, 3e-18)] {
        let d: f64 = cand - cur;
        for &x in &[1e-9, 1.0, 1e9] {
            let m = if x == 1.0 { n } else { (n / 4).max(10) };
            sa_cell(out, run_id, seed, cur, cand, d / x, m, Trial::AfterNested);
            sa_cell(out, run_id + 1, seed, cur, cand, d / x, m, Trial::Nested);
            run_id += 2;
        }
        sa_cell(out, run_id, seed, cand, cur, d * 1e-9, small, Trial::AfterNested);
        sa_cell(out, run_id + 1, seed, cand, cur, d * 1e-9, small, Trial::Nested);
        run_id += 2;
    }
    run_id
}

pub fn main(args: &Args) -> usize {
    let out = Arc::new(Shared { out: Mutex::new(Out::create(&args.str("out"))), pending: Mutex::new(None) });
    start_watchdog(out.clone());
    match args.mode.as_str() {
        "replay" => {
            for sc in read_ndjson(&args.str("in")) {
                let run_id = sc["run"].as_u64().unwrap();
                let hdr = Hdr::parse(&sc["hdr"]);
                out.out.lock().unwrap().emit(&reset_rec(run_id, &hdr));
                let mut run = start_run(hdr);
                for (i, a) in sc["acts"].as_array().unwrap().iter().enumerate() {
                    emit_step(&out, run_id, i, &mut run, a);
                }
            }
        }
        "random" => {
            let fam = args.str("family");
            let seed = args.seed();
            let runs = args.num("n", 10);
            let len = args.num("len", 100);
            let max = args.num("max", 40) as usize;
            match fam.as_str() {
                "sel" => {
                    for k in 0..runs {
                        random_sel(&out, k, seed, len, max);
                    }
                    let pruns = args.num("pressure-runs", 2);
                    for k in 0..pruns {
                        random_pressure(&out, 10_000 + k, seed, args.num("pressure-len", 10), args.num("draws", 3000));
                    }
                    for k in 0..(runs / 2).max(1) {
                        random_loop(&out, 20_000 + k, seed, len, max);
                    }
                }
                "repl" => {
                    for k in 0..runs {
                        random_repl(&out, k, seed, len, max);
                    }
                    for k in 0..(runs / 2).max(1) {
                        random_loop(&out, 20_000 + k, seed, len, max);
                    }
                    random_repl_cells(&out, 30_000, seed, args.num("trials", 400), args.num("cells", 4));
                }
                "sa" => {
                    let next = random_sa_cells(&out, 0, seed, args.num("trials", 400), args.num("full", 0) == 1);
                    for k in 0..runs {
                        random_sa_template(&out, next + k, seed, len);
                    }
                }
                other => panic!("unknown family {other}"),
            }
        }
        other => panic!("unknown mode {other}"),
    }
    let n = out.out.lock().unwrap().flush_count();
    n
}
