//! Driver for spec module `Cro` on PREPARED states (unit level of C20): each case is one reaction
//! update executed by the real component on a state built from integer energies:
//! population (objective value of tag t is t), molecule list (kinetic energies), energy buffer,
//! and the reactant / product populations the template would have pushed.
//! One record per case: state before (integers), call, accepted / rejected, objective values after
//! (exact integers), kinetic energy of the first reactant rounded down, buffer rounded (see
//! spec/Trace_Cro.tla), and float facts as predicates (DESIGN §2.4, P-pred).
use mahf::{
    components::misc::cro::{
        ChemicalReaction, DecompositionUpdate, EnergyBuffer, IntermolecularIneffectiveCollisionUpdate, Molecule,
        OnWallIneffectiveCollisionUpdate, SynthesisUpdate,
    },
    state::{common::Populations, random::Random},
    Component, ExecResult, Individual, State,
};
use rand::Rng;
use serde_json::{json, Value};

use crate::{
    tagproblem::TagProblem,
    util::{caught, read_ndjson, rng, Args, Out},
};

type P = TagProblem;

struct Case {
    pe: Vec<u32>,
    ke: Vec<f64>,
    buffer: f64,
    op: String,
    i: usize, // 1-based, as in the model
    j: usize,
    p1: u32,
    p2: u32,
    seed: u64,
    lr: f64,
    /// offset added to the objective values of reactant i and product p1 (it cancels in every energy balance)
    off: f64,
}

fn total(pop: &[Individual<P>], mols: &[Molecule<P>], buffer: f64) -> f64 {
    pop.iter().map(|x| x.objective().value()).sum::<f64>() + mols.iter().map(|m| m.kinetic_energy).sum::<f64>() + buffer
}

fn close(a: f64, b: f64) -> bool {
    (a - b).abs() <= 1e-9 * (1.0 + a.abs().max(b.abs()))
}

fn run_case(out: &mut Out, run: u64, c: &Case) {
    let mut problem = TagProblem::identity(1 << 12);
    if c.off != 0.0 {
        // tags >= 2048 carry the offset: reactant i and product p1 are re-tagged
        for t in 2048..(1 << 12) {
            problem.table[t] = (t - 2048) as f64 + c.off;
        }
    }
    let big = |t: u32| if c.off != 0.0 { t + 2048 } else { t };
    let mut state: State<P> = State::new();
    let pop: Vec<Individual<P>> =
        c.pe.iter().enumerate().map(|(k, t)| problem.evaluated(if c.off != 0.0 && k + 1 == c.i { big(*t) } else { *t })).collect();
    let mols: Vec<Molecule<P>> = pop.iter().zip(&c.ke).map(|(x, k)| Molecule::new(*k, x.clone())).collect();
    let reactants: Vec<Individual<P>> = match c.op.as_str() {
        "init" | "scoped_init" => Vec::new(),
        "on_wall" | "decompose" => vec![pop[c.i - 1].clone()],
        _ => vec![pop[c.i - 1].clone(), pop[c.j - 1].clone()],
    };
    let products: Vec<Individual<P>> = match c.op.as_str() {
        "init" | "scoped_init" => Vec::new(),
        "on_wall" | "synthesis" => vec![problem.evaluated(big(c.p1))],
        _ => vec![problem.evaluated(big(c.p1)), problem.evaluated(c.p2)],
    };
    let before_total = total(&pop, &mols, c.buffer);
    let mut pops = Populations::<P>::new();
    pops.push(pop.clone());
    if c.op != "init" && c.op != "scoped_init" {
        pops.push(reactants);
        pops.push(products);
    }
    state.insert(pops);
    state.insert(Random::new(c.seed));
    state.insert(ChemicalReaction::<P>(mols.clone()));
    state.insert(EnergyBuffer(c.buffer));
    let comp: Box<dyn Component<P>> = match c.op.as_str() {
        // the initialisation component executed on a state that already holds molecule records
        "init" | "scoped_init" => mahf::components::misc::cro::ChemicalReactionInit::new(c.p1 as f64, 0.0),
        "on_wall" => OnWallIneffectiveCollisionUpdate::new(c.lr),
        "decompose" => DecompositionUpdate::new(),
        "intermolecular" => IntermolecularIneffectiveCollisionUpdate::new(),
        "synthesis" => SynthesisUpdate::new(),
        other => panic!("unknown reaction {other}"),
    };
    let result: Result<ExecResult<()>, String> = caught(std::panic::AssertUnwindSafe(|| {
        if c.op == "scoped_init" {
            // a second reaction system set up and used inside a child scope on a copy of the population
            let inner_pop = pop.clone();
            state
                .with_inner_state(|inner| {
                    comp.init(&problem, inner)?;
                    inner.populations_mut().push(inner_pop);
                    comp.execute(&problem, inner)?;
                    inner.populations_mut().pop();
                    Ok(())
                })
                .map(|_| ())
        } else {
            comp.execute(&problem, &mut state)
        }
    }));
    let base = json!({"run": run, "op": c.op, "i": c.i, "j": c.j, "p1": c.p1, "p2": c.p2, "pe": c.pe,
                      "ke": c.ke.iter().map(|k| *k as i64).collect::<Vec<_>>(), "buffer": c.buffer as i64, "seed": c.seed, "lr": c.lr,
                      "big": (c.off != 0.0) as i64});
    let mut rec = base.as_object().unwrap().clone();
    let bad = |rec: &mut serde_json::Map<String, Value>, what: &str, err: String| {
        rec.insert("res".into(), json!(what));
        rec.insert("error".into(), json!(err));
        rec.insert("pe2".into(), json!([]));
        rec.insert("nm".into(), json!(0));
        rec.insert("bf".into(), json!(0));
        rec.insert("kef".into(), json!(0));
        rec.insert("ke2".into(), json!([]));
        rec.insert("h2".into(), json!(0));
        rec.insert("pred".into(), json!({"cons": 0, "nonneg": 0, "split": 0, "local": 0, "aligned": 0}));
    };
    match result {
        Err(p) => bad(&mut rec, "panic", p),
        Ok(Err(e)) => bad(&mut rec, "err", format!("{e:#}")),
        Ok(Ok(())) => {
            let h2 = state.populations().len();
            let pop2: Vec<Individual<P>> = if h2 >= 1 { state.populations().current().to_vec() } else { Vec::new() };
            let mols2: Vec<Molecule<P>> = state.borrow::<ChemicalReaction<P>>().0.clone();
            let buffer2 = state.get_value::<EnergyBuffer>();
            let same_pop = pop2.len() == pop.len() && pop2.iter().zip(&pop).all(|(a, b)| a == b);
            let same_ke = mols2.len() == mols.len()
                && mols2.iter().zip(&mols).all(|(a, b)| a.kinetic_energy.to_bits() == b.kinetic_energy.to_bits());
            let unchanged = same_pop && same_ke && buffer2.to_bits() == c.buffer.to_bits();
            // whether the reaction was accepted is decided by the model from the integer state; `changed` only selects which
            // float facts are meaningful (a reaction that leaves everything as it was satisfies them trivially)
            let accepted = !unchanged;
            let after_total = total(&pop2, &mols2, buffer2);
            let cons = close(before_total, after_total);
            let nonneg = buffer2 >= 0.0 && mols2.iter().all(|m| m.kinetic_energy >= 0.0);
            // participants: reactant positions (0-based) before; products sit at i (and j, or at the end for decomposition)
            if c.op == "init" || c.op == "scoped_init" {
                let aligned = mols2.len() == pop2.len() && mols2.iter().zip(&pop2).all(|(m, x)| m.best == *x);
                rec.insert("res".into(), json!(if accepted { "changed" } else { "unchanged" }));
                rec.insert("pe2".into(), json!(pop2.iter().map(|x| x.objective().value() as i64).collect::<Vec<_>>()));
                rec.insert("ke2".into(), json!(mols2.iter().map(|m| m.kinetic_energy as i64).collect::<Vec<_>>()));
                rec.insert("nm".into(), json!(mols2.len()));
                rec.insert("bf".into(), json!(buffer2 as i64));
                rec.insert("kef".into(), json!(0));
                rec.insert("h2".into(), json!(h2));
                rec.insert("pred".into(), json!({"cons": 1, "nonneg": nonneg as i64, "split": 1, "local": same_pop as i64, "aligned": aligned as i64}));
                out.emit(&Value::Object(rec));
                return;
            }
            let (bi, bj) = (c.i - 1, if c.j > 0 { Some(c.j - 1) } else { None });
            // synthesis: both reactants disappear, everyone else keeps their relative order (bit-identical), and the product
            // sits at some position k -- the statement does not say which slot it inherits
            let synth_pos: Option<usize> = if c.op == "synthesis" && accepted && pop2.len() + 1 == pop.len() && mols2.len() == pop2.len() {
                let keep: Vec<usize> = (0..pop.len()).filter(|k| *k != bi && Some(*k) != bj).collect();
                (0..pop2.len()).find(|k| {
                    let rest: Vec<usize> = (0..pop2.len()).filter(|n| n != k).collect();
                    rest.len() == keep.len()
                        && rest.iter().zip(&keep).all(|(n, o)| {
                            pop2[*n] == pop[*o] && mols2[*n].kinetic_energy.to_bits() == mols[*o].kinetic_energy.to_bits()
                        })
                })
            } else {
                None
            };
            let local = if !accepted {
                true
            } else {
                match c.op.as_str() {
                    "on_wall" | "intermolecular" => (0..pop.len()).all(|k| {
                        k == bi || Some(k) == bj || (pop2[k] == pop[k] && mols2[k].kinetic_energy.to_bits() == mols[k].kinetic_energy.to_bits())
                    }),
                    "decompose" => {
                        pop2.len() == pop.len() + 1
                            && (0..pop.len()).all(|k| k == bi || (pop2[k] == pop[k] && mols2[k].kinetic_energy.to_bits() == mols[k].kinetic_energy.to_bits()))
                    }
                    _ => synth_pos.is_some(),
                }
            };
            // energy of the participants (and the buffer) before = after
            let part_before: f64 = c.buffer
                + pop[bi].objective().value()
                + mols[bi].kinetic_energy
                + bj.map(|j| pop[j].objective().value() + mols[j].kinetic_energy).unwrap_or(0.0);
            let split = if !accepted || mols2.len() != pop2.len() {
                mols2.len() == pop2.len()
            } else {
                let pos_i = if c.op == "synthesis" { synth_pos.unwrap_or(0) } else { bi };
                let mut after = buffer2 + pop2[pos_i].objective().value() + mols2[pos_i].kinetic_energy;
                match c.op.as_str() {
                    "decompose" => after += pop2[pop2.len() - 1].objective().value() + mols2[mols2.len() - 1].kinetic_energy,
                    "intermolecular" => after += pop2[bj.unwrap()].objective().value() + mols2[bj.unwrap()].kinetic_energy,
                    _ => {}
                }
                close(part_before, after)
            };
            let aligned = mols2.len() == pop2.len()
                && mols2.iter().zip(&pop2).all(|(m, x)| m.best.objective() <= x.objective());
            let pos_i = if c.op == "synthesis" && accepted { synth_pos.unwrap_or(0) } else { bi };
            let kef = mols2.get(pos_i).map(|m| m.kinetic_energy.floor() as i64).unwrap_or(-1);
            let bf = if c.op == "on_wall" { buffer2.ceil() as i64 } else { buffer2.floor() as i64 };
            rec.insert("res".into(), json!(if accepted { "changed" } else { "unchanged" }));
            rec.insert("pe2".into(), json!(pop2.iter().map(|x| if *x.solution() >= 2048 { *x.solution() as i64 - 2048 } else { *x.solution() as i64 }).collect::<Vec<_>>()));
            rec.insert("nm".into(), json!(mols2.len()));
            rec.insert("bf".into(), json!(bf));
            rec.insert("kef".into(), json!(kef));
            rec.insert("ke2".into(), json!([]));
            rec.insert("h2".into(), json!(h2));
            rec.insert("pred".into(), json!({"cons": cons as i64, "nonneg": nonneg as i64, "split": split as i64, "local": local as i64,
                                             "aligned": aligned as i64}));
        }
    }
    out.emit(&Value::Object(rec));
}

/// the reactant the component resolves by equality is the FIRST individual equal to the selected one
fn canonical(pe: &[u32], i: usize, j: usize) -> bool {
    if i == 0 {
        return true; // (re-)initialisation: no reactant
    }
    let first_i = pe.iter().position(|x| *x == pe[i - 1]).unwrap() + 1;
    if first_i != i {
        return false;
    }
    if j == 0 {
        return true;
    }
    let first_j = pe.iter().enumerate().position(|(k, x)| k + 1 != i && *x == pe[j - 1]).unwrap() + 1;
    first_j == j
}

pub fn main(args: &Args) -> usize {
    let mut out = Out::create(&args.str("out"));
    match args.mode.as_str() {
        // cases exported from TLC: {"from": {pe, ke, buffer}, "act": {op, i, j, p1, p2}}, executed with `seeds` seeds each
        "replay" => {
            let seeds = args.num("seeds", 2);
            let mut run = 0u64;
            for case in read_ndjson(&args.str("in")) {
                let pe: Vec<u32> = case["from"]["pe"].as_array().unwrap().iter().map(|x| x.as_u64().unwrap() as u32).collect();
                let ke: Vec<f64> = case["from"]["ke"].as_array().unwrap().iter().map(|x| x.as_f64().unwrap()).collect();
                let a = &case["act"];
                let (i, j) = (a["i"].as_u64().unwrap() as usize, a["j"].as_u64().unwrap() as usize);
                if !canonical(&pe, i, j) {
                    continue;
                }
                for s in 0..seeds {
                    let c = Case {
                        pe: pe.clone(),
                        ke: ke.clone(),
                        buffer: case["from"]["buffer"].as_f64().unwrap(),
                        op: a["op"].as_str().unwrap().to_string(),
                        i,
                        j,
                        p1: a["p1"].as_u64().unwrap() as u32,
                        p2: a["p2"].as_u64().unwrap() as u32,
                        seed: args.seed() + s,
                        lr: if s % 2 == 0 { 0.1 } else { 0.0 },
                        off: 0.0,
                    };
                    run_case(&mut out, run, &c);
                    run += 1;
                }
            }
        }
        // seeded random prepared states with larger energies and populations
        "random" => {
            let n = args.num("n", 1000);
            let maxe0 = args.num("maxe", 60) as u32;
            for run in 0..n {
                let mut r = rng(args.seed(), run);
                // the cases with a huge common offset (every fifth) use values around the resolution of floats at
                // that magnitude (2^60 has steps of 256), so that sums are inexact
                let maxe = if run % 5 == 4 { 400 } else { maxe0 };
                let size = r.gen_range(1..=6usize);
                // few distinct values: equal individuals are common
                let span = if r.gen_bool(0.5) { 3 } else { maxe };
                let pe: Vec<u32> = (0..size).map(|_| r.gen_range(0..=span)).collect();
                let ke: Vec<f64> = (0..size).map(|_| if r.gen_bool(0.3) { 0.0 } else { r.gen_range(0..=maxe) as f64 }).collect();
                let buffer = if r.gen_bool(0.3) { 0.0 } else { r.gen_range(0..=2 * maxe) as f64 };
                if r.gen_range(0..12) == 0 {
                    let k0 = r.gen_range(0..=maxe);
                    let op = if r.gen_bool(0.5) { "init" } else { "scoped_init" };
                    let c = Case { pe, ke, buffer, op: op.to_string(), i: 0, j: 0, p1: k0, p2: 0, seed: args.seed() ^ run, lr: 0.1, off: 0.0 };
                    run_case(&mut out, run, &c);
                    continue;
                }
                let op = ["on_wall", "decompose", "intermolecular", "synthesis"][r.gen_range(0..if size >= 2 { 4 } else { 2 })];
                let i = r.gen_range(1..=size);
                let j = if op == "intermolecular" || op == "synthesis" {
                    loop {
                        let j = r.gen_range(1..=size);
                        if j != i {
                            break j;
                        }
                    }
                } else {
                    0
                };
                if !canonical(&pe, i, j) {
                    continue;
                }
                // products around the released energy: accepted, rejected and boundary cases are all frequent
                let avail = pe[i - 1] + ke[i - 1] as u32 + if j > 0 { pe[j - 1] + ke[j - 1] as u32 } else { 0 };
                let pick = |r: &mut rand_chacha::ChaCha8Rng| match r.gen_range(0..4) {
                    0 => avail,
                    1 => avail / 2,
                    2 => r.gen_range(0..=avail + 3),
                    _ => r.gen_range(0..=2 * maxe),
                };
                let (p1, p2) = (pick(&mut r), pick(&mut r));
                // every fifth case: reactant i and its product share a huge offset (energies of very different magnitude)
                let off = if run % 5 == 4 { (1u64 << 60) as f64 } else { 0.0 };
                let c = Case { pe, ke, buffer, op: op.to_string(), i, j, p1, p2, seed: args.seed() ^ run, lr: [0.0, 0.1, 0.9][r.gen_range(0..3)], off };
                run_case(&mut out, run, &c);
            }
        }
        other => panic!("unknown mode {other}"),
    }
    out.finish()
}
