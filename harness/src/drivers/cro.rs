//! Driver for spec module `Cro` on PREPARED states (unit level of C20): each case is one reaction
//! update executed by the real component on a state built from integer energies:
//! population (individual k holds solution `sol[k]` and the objective value `pe[k]` -- two individuals may hold
//! the same solution with different objective values, as under a noisy objective function), molecule list
//! (kinetic energies), energy buffer, the reactant / product populations the template would have pushed, and
//! `below` further populations underneath (a caller's own populations, holding copies of the very individuals
//! that react).  The integers are energies in the case's unit `2^unit` (multiplying by a power of two is exact in
//! f64 and commutes with every rounding the components perform), so the model's integer decision binds at every
//! magnitude: a product that is out of reach by one unit of 2^-54 is out of reach.
//! One record per case: state before (integers), call, accepted / rejected, objective values and solutions after
//! (exact integers), kinetic energy of the first reactant rounded down, buffer rounded (see
//! spec/Trace_Cro.tla), and float facts as predicates (DESIGN §2.4, P-pred).
use mahf::{
    components::misc::cro::{
        ChemicalReaction, DecompositionUpdate, EnergyBuffer, IntermolecularIneffectiveCollisionUpdate, Molecule,
        OnWallIneffectiveCollisionUpdate, SynthesisUpdate,
    },
    state::{common::Populations, random::Random},
    Component, ExecResult, Individual, State,
};
use rand::Rng;
use serde_json::{json, Value};

use crate::{
    tagproblem::TagProblem,
    util::{caught, read_ndjson, rng, Args, Out},
};

type P = TagProblem;

/// the solution products hold (spec/Cro.tla: Fresh) -- a bystander may hold it as well
const FRESH: u32 = 1;

struct Case {
    pe: Vec<u32>,
    ke: Vec<f64>,
    /// solution held by individual k (small integers; equal entries = the same point of the search space)
    sol: Vec<u32>,
    buffer: f64,
    /// populations underneath the reaction's population
    below: usize,
    op: String,
    i: usize, // 1-based, as in the model
    j: usize,
    p1: u32,
    p2: u32,
    seed: u64,
    lr: f64,
    /// offset added to the objective values of reactant i and product p1 (it cancels in every energy balance)
    off: f64,
    /// energies are the integers above times 2^unit
    unit: i32,
}

/// offsets up to 2^51 keep every sum of the balance below 2^53: the arithmetic stays exact and the integer model decides
fn exact_off(off: f64) -> bool {
    off <= (1u64 << 51) as f64
}

fn close(a: f64, b: f64) -> bool {
    (a - b).abs() <= 1e-9 * (1.0 + a.abs().max(b.abs()))
}

fn ind(sol: u32, value: f64) -> Individual<P> {
    Individual::new(sol, value.try_into().unwrap())
}

fn same_bits(a: &Individual<P>, b: &Individual<P>) -> bool {
    a.solution() == b.solution() && a.objective().value().to_bits() == b.objective().value().to_bits()
}

fn run_case(out: &mut Out, run: u64, c: &Case) {
    let problem = TagProblem::identity(8);
    let unit = 2f64.powi(c.unit);
    let inexact = c.off != 0.0 && !exact_off(c.off);
    let mut state: State<P> = State::new();
    // individual k: (solution, objective value); reactant i and product p1 carry the offset
    let off_of = |k: usize| if c.off != 0.0 && k + 1 == c.i { c.off } else { 0.0 };
    let pop: Vec<Individual<P>> = c.pe.iter().enumerate().map(|(k, e)| ind(c.sol[k], (*e as f64 + off_of(k)) * unit)).collect();
    let mols: Vec<Molecule<P>> = pop.iter().zip(&c.ke).map(|(x, k)| Molecule::new(*k * unit, x.clone())).collect();
    let reactants: Vec<Individual<P>> = match c.op.as_str() {
        "init" | "scoped_init" => Vec::new(),
        "on_wall" | "decompose" => vec![pop[c.i - 1].clone()],
        _ => vec![pop[c.i - 1].clone(), pop[c.j - 1].clone()],
    };
    let prod1 = ind(FRESH, (c.p1 as f64 + c.off) * unit);
    let prod2 = ind(FRESH, c.p2 as f64 * unit);
    let products: Vec<Individual<P>> = match c.op.as_str() {
        "init" | "scoped_init" => Vec::new(),
        "on_wall" | "synthesis" => vec![prod1.clone()],
        _ => vec![prod1.clone(), prod2.clone()],
    };
    // what an individual found afterwards is in the model's terms: its objective value as integer (offset taken out)
    let mut known: Vec<(Individual<P>, i64)> = pop.iter().enumerate().map(|(k, x)| (x.clone(), c.pe[k] as i64)).collect();
    known.push((prod1.clone(), c.p1 as i64));
    known.push((prod2.clone(), c.p2 as i64));
    let model_of = |x: &Individual<P>| known.iter().find(|(y, _)| same_bits(x, y)).map(|(_, e)| *e);
    // energies in the model's unit (with an offset the unit is 1 and "up to rounding" is relative to the offset)
    let energy = |x: &Individual<P>| -> f64 { x.objective().value() / unit };
    let total = |pop: &[Individual<P>], mols: &[Molecule<P>], buffer: f64| -> f64 {
        pop.iter().map(|x| energy(x)).sum::<f64>() + mols.iter().map(|m| m.kinetic_energy / unit).sum::<f64>() + buffer / unit
    };
    let before_total = total(&pop, &mols, c.buffer * unit);
    // the caller's own populations underneath: copies of the reacting individuals, of the products, of the whole
    // population, and strangers
    let lower: Vec<Vec<Individual<P>>> = (0..c.below)
        .map(|d| match d % 3 {
            0 => {
                let mut v = reactants.clone();
                v.push(ind(7, 3.0 * unit));
                v.extend(products.iter().cloned());
                v
            }
            1 => pop.clone(),
            _ => vec![ind(5, 0.0), ind(FRESH, 1.0 * unit)],
        })
        .collect();
    let mut pops = Populations::<P>::new();
    for l in &lower {
        pops.push(l.clone());
    }
    pops.push(pop.clone());
    if c.op != "init" && c.op != "scoped_init" {
        pops.push(reactants);
        pops.push(products);
    }
    state.insert(pops);
    state.insert(Random::new(c.seed));
    state.insert(ChemicalReaction::<P>(mols.clone()));
    state.insert(EnergyBuffer(c.buffer * unit));
    let comp: Box<dyn Component<P>> = match c.op.as_str() {
        // the initialisation component executed on a state that already holds molecule records
        "init" | "scoped_init" => mahf::components::misc::cro::ChemicalReactionInit::new(c.p1 as f64 * unit, 0.0),
        "on_wall" => OnWallIneffectiveCollisionUpdate::new(c.lr),
        "decompose" => DecompositionUpdate::new(),
        "intermolecular" => IntermolecularIneffectiveCollisionUpdate::new(),
        "synthesis" => SynthesisUpdate::new(),
        other => panic!("unknown reaction {other}"),
    };
    let result: Result<ExecResult<()>, String> = caught(std::panic::AssertUnwindSafe(|| {
        if c.op == "scoped_init" {
            // a second reaction system set up and used inside a child scope on a copy of the population
            let inner_pop = pop.clone();
            state
                .with_inner_state(|inner| {
                    comp.init(&problem, inner)?;
                    inner.populations_mut().push(inner_pop);
                    comp.execute(&problem, inner)?;
                    inner.populations_mut().pop();
                    Ok(())
                })
                .map(|_| ())
        } else {
            comp.execute(&problem, &mut state)
        }
    }));
    let base = json!({"run": run, "op": c.op, "i": c.i, "j": c.j, "si": c.i, "sj": c.j, "p1": c.p1, "p2": c.p2, "pe": c.pe, "sol": c.sol, "below": c.below,
                      "ke": c.ke.iter().map(|k| *k as i64).collect::<Vec<_>>(), "buffer": c.buffer as i64, "seed": c.seed, "lr": c.lr,
                      "unit": c.unit, "off": format!("{:e}", c.off), "big": inexact as i64});
    let mut rec = base.as_object().unwrap().clone();
    let bad = |rec: &mut serde_json::Map<String, Value>, what: &str, err: String| {
        rec.insert("res".into(), json!(what));
        rec.insert("error".into(), json!(err));
        rec.insert("pe2".into(), json!([]));
        rec.insert("sol2".into(), json!([]));
        rec.insert("nm".into(), json!(0));
        rec.insert("bf".into(), json!(0));
        rec.insert("kef".into(), json!(0));
        rec.insert("ke2".into(), json!([]));
        rec.insert("h2".into(), json!(0));
        rec.insert("pred".into(), json!({"cons": 0, "nonneg": 0, "split": 0, "local": 0, "aligned": 0, "lower": 0}));
    };
    match result {
        Err(p) => bad(&mut rec, "panic", p),
        Ok(Err(e)) => bad(&mut rec, "err", format!("{e:#}")),
        Ok(Ok(())) => {
            let h2 = state.populations().len();
            let pop2: Vec<Individual<P>> = if h2 >= 1 { state.populations().current().to_vec() } else { Vec::new() };
            let mols2: Vec<Molecule<P>> = state.borrow::<ChemicalReaction<P>>().0.clone();
            let buffer2 = state.get_value::<EnergyBuffer>();
            // the populations underneath are what they were (bit for bit, in place)
            let lower_ok = h2 == c.below + 1 && {
                let pops = state.populations();
                lower.iter().enumerate().all(|(d, l)| {
                    let now = pops.peek(h2 - 1 - d);
                    now.len() == l.len() && now.iter().zip(l).all(|(a, b)| same_bits(a, b))
                })
            };
            let same_pop = pop2.len() == pop.len() && pop2.iter().zip(&pop).all(|(a, b)| same_bits(a, b));
            let same_ke = mols2.len() == mols.len()
                && mols2.iter().zip(&mols).all(|(a, b)| a.kinetic_energy.to_bits() == b.kinetic_energy.to_bits());
            let unchanged = same_pop && same_ke && buffer2.to_bits() == (c.buffer * unit).to_bits();
            // whether the reaction was accepted is decided by the model from the integer state; `changed` only selects which
            // float facts are meaningful (a reaction that leaves everything as it was satisfies them trivially)
            let accepted = !unchanged;
            let after_total = total(&pop2, &mols2, buffer2);
            let cons = close(before_total, after_total);
            let nonneg = buffer2 >= 0.0 && mols2.iter().all(|m| m.kinetic_energy >= 0.0);
            let pe2: Vec<i64> = pop2.iter().map(|x| model_of(x).unwrap_or(-1)).collect();
            let sol2: Vec<u32> = pop2.iter().map(|x| *x.solution()).collect();
            // participants: reactant positions (0-based) before; products sit at i (and j, or at the end for decomposition)
            if c.op == "init" || c.op == "scoped_init" {
                let aligned = mols2.len() == pop2.len() && mols2.iter().zip(&pop2).all(|(m, x)| m.best == *x);
                rec.insert("res".into(), json!(if accepted { "changed" } else { "unchanged" }));
                rec.insert("pe2".into(), json!(pe2));
                rec.insert("sol2".into(), json!(sol2));
                rec.insert("ke2".into(), json!(mols2.iter().map(|m| (m.kinetic_energy / unit) as i64).collect::<Vec<_>>()));
                rec.insert("nm".into(), json!(mols2.len()));
                rec.insert("bf".into(), json!((buffer2 / unit) as i64));
                rec.insert("kef".into(), json!(0));
                rec.insert("h2".into(), json!(h2));
                rec.insert("pred".into(), json!({"cons": 1, "nonneg": nonneg as i64, "split": 1, "local": same_pop as i64, "aligned": aligned as i64,
                                                 "lower": lower_ok as i64}));
                out.emit(&Value::Object(rec));
                return;
            }
            // A reactant reaches the component as a COPY of the selected individual: among several individuals that are equal
            // (solution and objective value) any one may be the molecule that is located.  The facts below are judged for the
            // selected positions first and then for every other admissible pair; the first pair that explains the outcome is
            // reported as the molecules that reacted (i, j), next to the selected ones (si, sj).
            let (si, sj) = (c.i - 1, if c.j > 0 { Some(c.j - 1) } else { None });
            let shaped = mols2.len() == pop2.len();
            let aligned = shaped && mols2.iter().zip(&pop2).all(|(m, x)| m.best.objective() <= x.objective());
            let judge = |bi: usize, bj: Option<usize>| -> (bool, bool, i64) {
                let kept = |n: usize, o: usize| same_bits(&pop2[n], &pop[o]) && mols2[n].kinetic_energy.to_bits() == mols[o].kinetic_energy.to_bits();
                // synthesis: both reactants disappear, everyone else keeps their relative order (bit-identical), and the product
                // sits at some position k -- the statement does not say which slot it inherits
                let synth_pos: Option<usize> = if c.op == "synthesis" && accepted && pop2.len() + 1 == pop.len() && mols2.len() == pop2.len() {
                    let keep: Vec<usize> = (0..pop.len()).filter(|k| *k != bi && Some(*k) != bj).collect();
                    (0..pop2.len()).find(|k| {
                        let rest: Vec<usize> = (0..pop2.len()).filter(|n| n != k).collect();
                        rest.len() == keep.len() && same_bits(&pop2[*k], &prod1) && rest.iter().zip(&keep).all(|(n, o)| kept(*n, *o))
                    })
                } else {
                    None
                };
                let local = if !accepted {
                    true
                } else {
                    // (the products sit where the located molecules were: that is what makes a pair "the located one")
                    match c.op.as_str() {
                        "on_wall" => shaped && pop2.len() == pop.len() && same_bits(&pop2[bi], &prod1) && (0..pop.len()).all(|k| k == bi || kept(k, k)),
                        "intermolecular" => {
                            shaped
                                && pop2.len() == pop.len()
                                && same_bits(&pop2[bi], &prod1)
                                && same_bits(&pop2[bj.unwrap()], &prod2)
                                && (0..pop.len()).all(|k| k == bi || Some(k) == bj || kept(k, k))
                        }
                        "decompose" => {
                            shaped && pop2.len() == pop.len() + 1 && same_bits(&pop2[bi], &prod1) && (0..pop.len()).all(|k| k == bi || kept(k, k))
                        }
                        _ => synth_pos.is_some(),
                    }
                };
                // energy of the participants (and the buffer) before = after
                let part_before: f64 = c.buffer + energy(&pop[bi]) + c.ke[bi] + bj.map(|j| energy(&pop[j]) + c.ke[j]).unwrap_or(0.0);
                let split = if !accepted || !shaped {
                    shaped
                } else {
                    let pos_i = if c.op == "synthesis" { synth_pos.unwrap_or(0) } else { bi };
                    let mut after = buffer2 / unit + energy(&pop2[pos_i]) + mols2[pos_i].kinetic_energy / unit;
                    match c.op.as_str() {
                        "decompose" => after += energy(&pop2[pop2.len() - 1]) + mols2[mols2.len() - 1].kinetic_energy / unit,
                        "intermolecular" => after += energy(&pop2[bj.unwrap()]) + mols2[bj.unwrap()].kinetic_energy / unit,
                        _ => {}
                    }
                    close(part_before, after)
                };
                let pos_i = if c.op == "synthesis" && accepted { synth_pos.unwrap_or(0) } else { bi };
                let kef = mols2.get(pos_i).map(|m| (m.kinetic_energy / unit).floor() as i64).unwrap_or(-1);
                (local, split, kef)
            };
            let equal_to = |o: usize| -> Vec<usize> { (0..pop.len()).filter(|k| *k == o || same_bits(&pop[*k], &pop[o])).collect() };
            let mut pairs: Vec<(usize, Option<usize>)> = vec![(si, sj)];
            for a in equal_to(si) {
                match sj {
                    None => pairs.push((a, None)),
                    Some(j) => pairs.extend(equal_to(j).into_iter().filter(|b| *b != a).map(|b| (a, Some(b)))),
                }
            }
            let (mut bi, mut bj) = (si, sj);
            let (mut local, mut split, mut kef) = judge(si, sj);
            if !(local && split) {
                for (a, b) in pairs.into_iter().skip(1) {
                    let (l, s, k) = judge(a, b);
                    if l && s {
                        (bi, bj, local, split, kef) = (a, b, l, s, k);
                        break;
                    }
                }
            }
            rec.insert("i".into(), json!(bi + 1));
            rec.insert("j".into(), json!(bj.map(|j| j + 1).unwrap_or(0)));
            let bf = if c.op == "on_wall" { (buffer2 / unit).ceil() as i64 } else { (buffer2 / unit).floor() as i64 };
            rec.insert("res".into(), json!(if accepted { "changed" } else { "unchanged" }));
            rec.insert("pe2".into(), json!(pe2));
            rec.insert("sol2".into(), json!(sol2));
            rec.insert("nm".into(), json!(mols2.len()));
            rec.insert("bf".into(), json!(bf));
            rec.insert("kef".into(), json!(kef));
            rec.insert("ke2".into(), json!([]));
            rec.insert("h2".into(), json!(h2));
            rec.insert("pred".into(), json!({"cons": cons as i64, "nonneg": nonneg as i64, "split": split as i64, "local": local as i64,
                                             "aligned": aligned as i64, "lower": lower_ok as i64}));
        }
    }
    out.emit(&Value::Object(rec));
}

/// A reactant is handed to the component as a copy of the selected individual; among several individuals that are equal
/// in solution AND objective value the selected one cannot be told apart, so the case names the first of them
fn canonical(pe: &[u32], sol: &[u32], i: usize, j: usize, off: f64) -> bool {
    if i == 0 {
        return true; // (re-)initialisation: no reactant
    }
    // (the reactant carrying an offset is equal to nobody else)
    let eq = |a: usize, b: usize| pe[a] == pe[b] && sol[a] == sol[b] && (off == 0.0 || (a + 1 == i) == (b + 1 == i));
    let first_i = (0..pe.len()).position(|k| eq(k, i - 1)).unwrap() + 1;
    if first_i != i {
        return false;
    }
    if j == 0 {
        return true;
    }
    let first_j = (0..pe.len()).position(|k| k + 1 != i && eq(k, j - 1)).unwrap() + 1;
    first_j == j
}

/// units the exported cases are run at, in turn
const UNITS: [i32; 6] = [0, -54, 0, -60, 40, -53];

pub fn main(args: &Args) -> usize {
    let mut out = Out::create(&args.str("out"));
    match args.mode.as_str() {
        // cases exported from TLC: {"from": {pe, ke, sol, buffer, below}, "act": {op, i, j, p1, p2}}, executed with `seeds` seeds
        // each (a replay file may fix the unit: "unit")
        "replay" => {
            let seeds = args.num("seeds", 2);
            let mut run = 0u64;
            for (idx, case) in read_ndjson(&args.str("in")).iter().enumerate() {
                let ints = |v: &Value| -> Vec<u32> { v.as_array().map(|a| a.iter().map(|x| x.as_u64().unwrap() as u32).collect()).unwrap_or_default() };
                let pe = ints(&case["from"]["pe"]);
                let ke: Vec<f64> = case["from"]["ke"].as_array().unwrap().iter().map(|x| x.as_f64().unwrap()).collect();
                let sol = if case["from"]["sol"].is_array() { ints(&case["from"]["sol"]) } else { (0..pe.len() as u32).map(|k| k + 2).collect() };
                let below = case["from"]["below"].as_u64().unwrap_or(0) as usize;
                let a = &case["act"];
                let (i, j) = (a["i"].as_u64().unwrap() as usize, a["j"].as_u64().unwrap() as usize);
                let off: f64 = case["off"].as_str().and_then(|s| s.parse().ok()).unwrap_or(0.0);
                if !canonical(&pe, &sol, i, j, off) {
                    continue;
                }
                for s in 0..seeds {
                    let c = Case {
                        pe: pe.clone(),
                        ke: ke.clone(),
                        sol: sol.clone(),
                        buffer: case["from"]["buffer"].as_f64().unwrap(),
                        below,
                        op: a["op"].as_str().unwrap().to_string(),
                        i,
                        j,
                        p1: a["p1"].as_u64().unwrap() as u32,
                        p2: a["p2"].as_u64().unwrap() as u32,
                        seed: args.seed() + s,
                        lr: case["lr"].as_f64().unwrap_or(if s % 2 == 0 { 0.1 } else { 0.0 }),
                        off,
                        unit: case["unit"].as_i64().map(|u| u as i32).unwrap_or(UNITS[(idx + s as usize) % UNITS.len()]),
                    };
                    run_case(&mut out, run, &c);
                    run += 1;
                }
            }
        }
        // seeded random prepared states with larger energies and populations
        "random" => {
            let n = args.num("n", 1000);
            let maxe0 = args.num("maxe", 60) as u32;
            for run in 0..n {
                let mut r = rng(args.seed(), run);
                // every fifth case: reactant i and its product share a huge offset (energies of very different magnitude):
                // alternately 2^60 (steps of 256 there: the values are chosen around that resolution, sums are inexact) and
                // 2^51 (every sum of the balance stays exact: a product out of reach by 1 in 2^51 is out of reach)
                let off = if run % 10 == 4 {
                    (1u64 << 60) as f64
                } else if run % 10 == 9 {
                    (1u64 << 51) as f64
                } else {
                    0.0
                };
                // every seventh of the others: objective values around 2^26 (a gap of 1 is a relative difference of 1e-8);
                // kinetic energies, buffer and the released energy stay small (the model enumerates the shares)
                let wide = off == 0.0 && run % 7 == 3;
                let maxe = if off != 0.0 && !exact_off(off) { 400 } else { maxe0 };
                let size = r.gen_range(1..=6usize);
                // few distinct values: equal individuals are common
                let span = if r.gen_bool(0.5) { 3 } else { maxe };
                let level = if wide { r.gen_range(1u32..=(1 << 26)) } else { 0 };
                let pe: Vec<u32> = (0..size).map(|_| level + r.gen_range(0..=span)).collect();
                // few distinct solutions: the same point evaluated to different values (and copies) is common; products hold 1
                let nsol = [1u32, 2, 3, 9][r.gen_range(0..4)];
                let sol: Vec<u32> = (0..size).map(|_| r.gen_range(1..=nsol)).collect();
                let ke: Vec<f64> = (0..size).map(|_| if r.gen_bool(0.3) { 0.0 } else { r.gen_range(0..=maxe) as f64 }).collect();
                let buffer = if r.gen_bool(0.3) { 0.0 } else { r.gen_range(0..=2 * maxe) as f64 };
                let below = [0usize, 0, 1, 2, 3][r.gen_range(0..5)];
                let unit = if off != 0.0 { 0 } else { [0, 0, -54, -53, -60, -200, 30, 200][r.gen_range(0..8)] };
                if r.gen_range(0..12) == 0 {
                    let k0 = r.gen_range(0..=maxe);
                    let op = if r.gen_bool(0.5) { "init" } else { "scoped_init" };
                    let c = Case { pe, ke, sol, buffer, below, op: op.to_string(), i: 0, j: 0, p1: k0, p2: 0, seed: args.seed() ^ run, lr: 0.1, off: 0.0, unit };
                    run_case(&mut out, run, &c);
                    continue;
                }
                let op = ["on_wall", "decompose", "intermolecular", "synthesis"][r.gen_range(0..if size >= 2 { 4 } else { 2 })];
                let i = r.gen_range(1..=size);
                let j = if op == "intermolecular" || op == "synthesis" {
                    loop {
                        let j = r.gen_range(1..=size);
                        if j != i {
                            break j;
                        }
                    }
                } else {
                    0
                };
                if !canonical(&pe, &sol, i, j, off) {
                    continue;
                }
                // products around the released energy: accepted, rejected and boundary cases (exactly affordable, out of reach
                // by one) are all frequent
                let avail = pe[i - 1] + ke[i - 1] as u32 + if j > 0 { pe[j - 1] + ke[j - 1] as u32 } else { 0 };
                let two = op == "decompose" || op == "intermolecular";
                let pick = |r: &mut rand_chacha::ChaCha8Rng| match r.gen_range(0..4) {
                    0 => avail,
                    1 => avail / 2,
                    2 => r.gen_range(0..=avail + 3),
                    _ => r.gen_range(0..=2 * maxe),
                };
                let (mut p1, mut p2) = (pick(&mut r), pick(&mut r));
                if wide || r.gen_range(0..3) == 0 {
                    // the products together cost exactly what is there, one more, or a little less
                    let target = if wide && r.gen_bool(0.5) { avail.saturating_sub(r.gen_range(0..=maxe)) } else { avail + r.gen_range(0..=1) };
                    if two {
                        p1 = r.gen_range(0..=target);
                        p2 = target - p1;
                    } else {
                        p1 = target;
                    }
                }
                let c = Case { pe, ke, sol, buffer, below, op: op.to_string(), i, j, p1, p2, seed: args.seed() ^ run, lr: [0.0, 0.1, 0.9][r.gen_range(0..3)], off, unit };
                run_case(&mut out, run, &c);
            }
        }
        other => panic!("unknown mode {other}"),
    }
    out.finish()
}
