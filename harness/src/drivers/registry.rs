//! Driver for spec module `Registry` (C01): executes registry calls on a real
//! `StateRegistry` and records reply + full projected scope chain after every call.
use std::ops::{Deref, DerefMut};

use better_any::{Tid, TidAble};
use mahf::{
    logging::log::Log,
    state::{
        common::{BestIndividual, Evaluations, Iterations, Populations},
        registry::{Entry, StateRegistry},
        Random,
    },
    CustomState, Individual, StateError,
};
use rand::{seq::SliceRandom, Rng};
use serde_json::{json, Map, Value};

use crate::util::{caught, read_ndjson, rng, Args, Out, NOVAL};

/// What the drivers need from anything that carries the abstract value of a state: read it, overwrite it.
pub trait Valued {
    fn val(&self) -> u32;
    fn put(&mut self, v: u32);
}
impl Valued for u32 {
    fn val(&self) -> u32 {
        *self
    }
    fn put(&mut self, v: u32) {
        *self = v;
    }
}

/// A state type of the type universe: built from an abstract value, and `Valued`.
pub trait Marker: for<'a> CustomState<'a> + Valued + Sized + 'static {
    fn mk(v: u32) -> Self;
}
/// The state types for which the `*_value` accessor forms, `set_value` and `or_default` exist at all
/// (`Deref<Target = u32>` + `Default`): the marker types and mahf's own counters.
pub trait ValueMarker: Marker + Deref<Target = u32> + DerefMut + Default {}
impl<T> ValueMarker for T where T: Marker + Deref<Target = u32> + DerefMut + Default {}

macro_rules! marker {
    ($($n:ident),*) => {$(
        #[derive(Tid, Default)]
        pub struct $n(pub u32);
        impl CustomState<'_> for $n {}
        impl Deref for $n { type Target = u32; fn deref(&self) -> &u32 { &self.0 } }
        impl DerefMut for $n { fn deref_mut(&mut self) -> &mut u32 { &mut self.0 } }
        impl Valued for $n { fn val(&self) -> u32 { self.0 } fn put(&mut self, v: u32) { self.0 = v; } }
        impl Marker for $n { fn mk(v: u32) -> Self { Self(v) } }
    )*};
}
marker!(T1, T2, T3, T4, T5, T6, T7, T8, T9);

pub const TYPE_NAMES: [&str; 9] = ["T1", "T2", "T3", "T4", "T5", "T6", "T7", "T8", "T9"];

// ---- two DIFFERENT state types that share their type name: declared under the same identifier in nested blocks of
// one function (as a declaring macro produces them); they leave the function through a trait.  "A type" is its
// identity (TypeId), never its name.
pub trait TwinPair {
    type A: ValueMarker;
    type B: ValueMarker;
}
pub struct Twins;
#[allow(dead_code)]
fn twin_types() {
    marker!(Twin);
    type First = Twin;
    {
        marker!(Twin);
        impl TwinPair for Twins {
            type A = First;
            type B = Twin;
        }
    }
}
pub type TwA = <Twins as TwinPair>::A;
pub type TwB = <Twins as TwinPair>::B;
pub const TWIN_NAMES: [&str; 2] = ["TwA", "TwB"];

// ---- mahf's own "common" state types, the ones the convenience accessors of `State` look up -------------------
// abstract value v  <->  Evaluations(v) / Iterations(v) / a best individual with solution v and objective v /
// a population stack holding one population of one individual with solution v / a generator seeded with v /
// the (empty) log, whose only abstract value is 0 (nothing outside mahf can write into a Log)
pub type TP = crate::tagproblem::TagProblem;
pub type Best = BestIndividual<TP>;
pub type Pops = Populations<TP>;

macro_rules! counter {
    ($($n:ident),*) => {$(
        impl Valued for $n { fn val(&self) -> u32 { self.0 } fn put(&mut self, v: u32) { self.0 = v; } }
        impl Marker for $n { fn mk(v: u32) -> Self { Self(v) } }
    )*};
}
counter!(Evaluations, Iterations);

fn tagged(v: u32) -> Individual<TP> {
    Individual::new(v, (v as f64).try_into().unwrap())
}
impl Valued for Individual<TP> {
    fn val(&self) -> u32 {
        *self.solution()
    }
    fn put(&mut self, v: u32) {
        *self = tagged(v);
    }
}
impl Valued for Best {
    fn val(&self) -> u32 {
        self.as_ref().map(|i| *i.solution()).unwrap_or(u32::MAX)
    }
    fn put(&mut self, v: u32) {
        **self = Some(tagged(v));
    }
}
impl Marker for Best {
    fn mk(v: u32) -> Self {
        let mut b = Best::new();
        *b = Some(tagged(v));
        b
    }
}
impl Valued for Pops {
    fn val(&self) -> u32 {
        self.get_current().and_then(|p| p.first()).map(|i| *i.solution()).unwrap_or(u32::MAX)
    }
    fn put(&mut self, v: u32) {
        *self = Pops::mk(v);
    }
}
impl Marker for Pops {
    fn mk(v: u32) -> Self {
        let mut p = Pops::new();
        p.push(vec![tagged(v)]);
        p
    }
}
impl Valued for Random {
    fn val(&self) -> u32 {
        self.config().seed as u32
    }
    fn put(&mut self, v: u32) {
        *self = Random::new(v as u64);
    }
}
impl Marker for Random {
    fn mk(v: u32) -> Self {
        Random::new(v as u64)
    }
}
impl Valued for Log {
    fn val(&self) -> u32 {
        0
    }
    fn put(&mut self, v: u32) {
        assert_eq!(v, 0, "a Log has no writable content");
    }
}
impl Marker for Log {
    fn mk(v: u32) -> Self {
        assert_eq!(v, 0, "a Log has no writable content");
        Log::new()
    }
}

/// the types the convenience accessors of `State` are about (names as in the specification)
pub const COMMON_NAMES: [&str; 6] = ["Iterations", "Evaluations", "BestIndividual", "Populations", "Random", "Log"];
/// do the `*_value` forms / `set_value` / `or_default` exist for this type?
pub fn is_value_type(t: &str) -> bool {
    TYPE_NAMES.contains(&t) || TWIN_NAMES.contains(&t) || t == "Iterations" || t == "Evaluations"
}
pub fn is_value_form(op: &str, f: &str) -> bool {
    op == "set_value" || f.contains("value") || f == "or_default"
}

/// generic dispatch over every type of the universe (the body may use the `Marker` interface only)
#[macro_export]
macro_rules! with_type {
    ($name:expr, $T:ident => $body:expr) => {
        match $name {
            "T1" => { type $T = T1; $body }
            "T2" => { type $T = T2; $body }
            "T3" => { type $T = T3; $body }
            "T4" => { type $T = T4; $body }
            "T5" => { type $T = T5; $body }
            "T6" => { type $T = T6; $body }
            "T7" => { type $T = T7; $body }
            "T8" => { type $T = T8; $body }
            "T9" => { type $T = T9; $body }
            "TwA" => { type $T = TwA; $body }
            "TwB" => { type $T = TwB; $body }
            "Iterations" => { type $T = mahf::state::common::Iterations; $body }
            "Evaluations" => { type $T = mahf::state::common::Evaluations; $body }
            "BestIndividual" => { type $T = Best; $body }
            "Populations" => { type $T = Pops; $body }
            "Random" => { type $T = mahf::state::Random; $body }
            "Log" => { type $T = mahf::logging::log::Log; $body }
            other => panic!("unknown type {other}"),
        }
    };
}
/// dispatch over the types that have the value forms (`ValueMarker`)
#[macro_export]
macro_rules! with_value_type {
    ($name:expr, $T:ident => $body:expr) => {
        match $name {
            "T1" => { type $T = T1; $body }
            "T2" => { type $T = T2; $body }
            "T3" => { type $T = T3; $body }
            "T4" => { type $T = T4; $body }
            "T5" => { type $T = T5; $body }
            "T6" => { type $T = T6; $body }
            "T7" => { type $T = T7; $body }
            "T8" => { type $T = T8; $body }
            "T9" => { type $T = T9; $body }
            "TwA" => { type $T = TwA; $body }
            "TwB" => { type $T = TwB; $body }
            "Iterations" => { type $T = mahf::state::common::Iterations; $body }
            "Evaluations" => { type $T = mahf::state::common::Evaluations; $body }
            other => panic!("the value forms do not exist for type {other}"),
        }
    };
}

/// the type universe of this invocation (root-first maps of the trace are keyed by these names)
static UNIVERSE: std::sync::OnceLock<Vec<&'static str>> = std::sync::OnceLock::new();
/// `--names A,B,..` selects the universe explicitly, otherwise it is T1..T<types>
pub fn set_universe(args: &Args) -> Vec<&'static str> {
    let nt = args.num("types", 2) as usize;
    let names: Vec<&'static str> = match args.get("names") {
        Some(list) => list
            .split(',')
            .map(|n| *TYPE_NAMES.iter().chain(COMMON_NAMES.iter()).chain(TWIN_NAMES.iter()).find(|x| **x == n).unwrap_or_else(|| panic!("unknown type {n}")))
            .collect(),
        None => TYPE_NAMES[..nt].to_vec(),
    };
    // the twins are what they are meant to be: one name, two types
    assert_eq!(std::any::type_name::<TwA>(), std::any::type_name::<TwB>());
    assert_ne!(std::any::TypeId::of::<TwA>(), std::any::TypeId::of::<TwB>());
    UNIVERSE.set(names.clone()).expect("universe set once");
    names
}
pub fn universe() -> &'static [&'static str] {
    UNIVERSE.get().expect("universe not set")
}

pub type Reg = StateRegistry<'static>;

pub fn err_kind(e: &StateError) -> &'static str {
    match e {
        StateError::NotFound(_) => "notfound",
        StateError::BorrowConflictImm(..) => "conflict_imm",
        StateError::BorrowConflictMut(..) => "conflict_mut",
        StateError::MultipleBorrowConflict(_) => "duplicate",
        StateError::RequiredMissing(..) => "required_missing",
    }
}

pub fn empty_map(_ntypes: usize) -> Value {
    let mut m = Map::new();
    for t in universe() {
        m.insert(t.to_string(), json!(NOVAL));
    }
    Value::Object(m)
}

pub fn r(k: &str, v: i64, ntypes: usize) -> Value {
    json!({"k": k, "v": v, "m": empty_map(ntypes)})
}

/// Projection of a single registry node: for every marker type the value bound *in this
/// scope* (contains_at_top + read through this node), NoVal otherwise.
pub fn project_scope(reg: &Reg, _ntypes: usize) -> Value {
    let mut m = Map::new();
    for t in universe() {
        let v = with_type!(*t, T => {
            if reg.contains_at_top::<T>() {
                reg.try_borrow::<T>().map(|g| g.val() as i64).unwrap_or(-1)
            } else {
                NOVAL
            }
        });
        m.insert(t.to_string(), json!(v));
    }
    Value::Object(m)
}

/// Full projected state: root first.
pub fn project(reg: &Reg, ntypes: usize) -> Value {
    let mut chain = Vec::new();
    let mut cur = Some(reg);
    while let Some(r) = cur {
        chain.push(project_scope(r, ntypes));
        cur = r.parent();
    }
    chain.reverse();
    Value::Array(chain)
}

pub fn ancestor_mut(reg: &mut Reg, d: usize) -> &mut Reg {
    let mut cur = reg;
    for _ in 0..d {
        cur = cur.parent_mut().expect("ancestor exists");
    }
    cur
}

pub fn ancestor(reg: &Reg, d: usize) -> &Reg {
    let mut cur = reg;
    for _ in 0..d {
        cur = cur.parent().expect("ancestor exists");
    }
    cur
}

fn sres<T>(x: Result<T, StateError>, f: impl FnOnce(T) -> i64, nt: usize) -> Value {
    match x {
        Ok(t) => r("ok", f(t), nt),
        Err(e) => r(err_kind(&e), NOVAL, nt),
    }
}

fn pres(x: Result<i64, String>, nt: usize) -> Value {
    match x {
        Ok(v) => r("ok", v, nt),
        Err(_) => r("panic", NOVAL, nt),
    }
}

/// the forms that exist for every state type
pub fn read_form<T: Marker>(reg: &Reg, f: &str, nt: usize) -> Value {
    match f {
        "try_borrow" => sres(reg.try_borrow::<T>(), |g| g.val() as i64, nt),
        "try_borrow_mut" => sres(reg.try_borrow_mut::<T>(), |g| g.val() as i64, nt),
        "borrow" => pres(caught(|| reg.borrow::<T>().val() as i64), nt),
        "borrow_mut" => pres(caught(|| reg.borrow_mut::<T>().val() as i64), nt),
        other => panic!("unknown read form {other}"),
    }
}

/// the forms that go through `Deref` to the value
pub fn read_value_form<T: ValueMarker>(reg: &Reg, f: &str, nt: usize) -> Value {
    match f {
        "try_get_value" => sres(reg.try_get_value::<T>(), |v| v as i64, nt),
        "try_borrow_value" => sres(reg.try_borrow_value::<T>(), |g| *g as i64, nt),
        "try_borrow_value_mut" => sres(reg.try_borrow_value_mut::<T>(), |g| *g as i64, nt),
        "get_value" => pres(caught(|| reg.get_value::<T>() as i64), nt),
        "borrow_value" => pres(caught(|| *reg.borrow_value::<T>() as i64), nt),
        "borrow_value_mut" => pres(caught(|| *reg.borrow_value_mut::<T>() as i64), nt),
        other => panic!("unknown read form {other}"),
    }
}

fn swap(x: &mut impl Valued, v: u32) -> i64 {
    let old = x.val();
    x.put(v);
    old as i64
}

pub fn write_form<T: Marker>(reg: &Reg, f: &str, v: u32, nt: usize) -> Value {
    match f {
        "try_borrow_mut" => sres(reg.try_borrow_mut::<T>(), |mut g| swap(&mut *g, v), nt),
        "borrow_mut" => pres(caught(|| swap(&mut *reg.borrow_mut::<T>(), v)), nt),
        other => panic!("unknown write form {other}"),
    }
}

pub fn write_value_form<T: ValueMarker>(reg: &Reg, f: &str, v: u32, nt: usize) -> Value {
    match f {
        "try_borrow_value_mut" => {
            sres(reg.try_borrow_value_mut::<T>(), |mut g| std::mem::replace(&mut *g, v) as i64, nt)
        }
        "borrow_value_mut" => {
            pres(caught(|| std::mem::replace(&mut *reg.borrow_value_mut::<T>(), v) as i64), nt)
        }
        other => panic!("unknown write form {other}"),
    }
}

fn entry_value_form<T: ValueMarker>(reg: &mut Reg, f: &str, v: u32, nt: usize) -> Value {
    let entry = reg.entry::<T>();
    let occupied = matches!(entry, Entry::Occupied(_));
    let kind = if occupied { "occupied" } else { "vacant" };
    let val: i64 = match f {
        "or_default" => entry.or_default().val() as i64,
        "and_modify_value" => {
            let mut old = NOVAL;
            let _ = entry.and_modify_value(|x| {
                old = *x as i64;
                *x = v;
            });
            old
        }
        other => panic!("unknown entry form {other}"),
    };
    r(kind, val, nt)
}

fn entry_form<T: Marker>(reg: &mut Reg, f: &str, v: u32, w: u32, nt: usize) -> Value {
    let entry = reg.entry::<T>();
    let occupied = matches!(entry, Entry::Occupied(_));
    let kind = if occupied { "occupied" } else { "vacant" };
    let val: i64 = match f {
        "or_insert" => entry.or_insert(T::mk(v)).val() as i64,
        "or_insert_with" => {
            let mut called = false;
            let got = entry.or_insert_with(|| {
                called = true;
                T::mk(v)
            }).val() as i64;
            // the default closure runs exactly when the entry is vacant
            if called == occupied { -2 } else { got }
        }
        "and_modify" => {
            let mut old = NOVAL;
            let _ = entry.and_modify(|mut g| {
                old = swap(&mut *g, v);
            });
            old
        }
        "and_modify_or_insert" => entry.and_modify(|mut g| g.put(v)).or_insert(T::mk(w)).val() as i64,
        "occ_get" => match entry {
            Entry::Occupied(e) => e.get().val() as i64,
            Entry::Vacant(_) => NOVAL,
        },
        "occ_get_mut" => match entry {
            Entry::Occupied(mut e) => swap(&mut *e.get_mut(), v),
            Entry::Vacant(_) => NOVAL,
        },
        "occ_into_mut" => match entry {
            Entry::Occupied(e) => swap(&mut *e.into_mut(), v),
            Entry::Vacant(_) => NOVAL,
        },
        "occ_insert" => match entry {
            Entry::Occupied(mut e) => e.insert(T::mk(v)).val() as i64,
            Entry::Vacant(_) => NOVAL,
        },
        "occ_remove" => match entry {
            Entry::Occupied(e) => e.remove().val() as i64,
            Entry::Vacant(_) => NOVAL,
        },
        "vac_insert" => match entry {
            Entry::Occupied(_) => NOVAL,
            Entry::Vacant(e) => e.insert(T::mk(v)).val() as i64,
        },
        other => panic!("unknown entry form {other}"),
    };
    r(kind, val, nt)
}

/// Executes one call; returns the reply.
pub fn exec(reg: &mut Reg, a: &Value, nt: usize) -> Value {
    let op = a["op"].as_str().unwrap();
    let t = a["t"].as_str().unwrap();
    let v = a["v"].as_i64().unwrap() as u32;
    let w = a["w"].as_i64().unwrap() as u32;
    let d = a["d"].as_u64().unwrap() as usize;
    let f = a["f"].as_str().unwrap();
    match op {
        "push" => {
            let old = std::mem::take(reg);
            *reg = old.into_child();
            r("ok", NOVAL, nt)
        }
        "pop" => {
            let old = std::mem::take(reg);
            let (parent, popped) = old.into_parent();
            let m = project_scope(&popped, nt);
            let popped_has_parent = popped.parent().is_some();
            match parent {
                Some(p) => {
                    *reg = p;
                    json!({"k": if popped_has_parent { "popped_has_parent" } else { "parent" }, "v": NOVAL, "m": m})
                }
                None => {
                    *reg = popped;
                    json!({"k": "noparent", "v": NOVAL, "m": m})
                }
            }
        }
        "contains" | "contains_at_top" | "read" | "write" | "set_value" => exec_shared(reg, a, nt).unwrap(),
        "entry" if is_value_form(op, f) => with_value_type!(t, T => entry_value_form::<T>(ancestor_mut(reg, d), f, v, nt)),
        _ => with_type!(t, T => {
            match op {
                "insert" => match ancestor_mut(reg, d).insert(T::mk(v)) {
                    Some(old) => r("some", old.val() as i64, nt),
                    None => r("none", NOVAL, nt),
                },
                "remove" => match f {
                    "remove" => sres(ancestor_mut(reg, d).remove::<T>(), |x| x.val() as i64, nt),
                    "take" => pres(caught(|| ancestor_mut(reg, d).take::<T>().val() as i64), nt),
                    other => panic!("unknown remove form {other}"),
                },
                "get_mut" => match ancestor_mut(reg, d).get_mut::<T>() {
                    Some(x) => r("some", swap(x, v), nt),
                    None => r("none", NOVAL, nt),
                },
                "entry" => entry_form::<T>(ancestor_mut(reg, d), f, v, w, nt),
                other => panic!("unknown op {other}"),
            }
        }),
    }
}

/// The calls that need only `&self` (usable while guards are alive).
pub fn exec_shared(reg: &Reg, a: &Value, nt: usize) -> Option<Value> {
    let op = a["op"].as_str().unwrap();
    if !matches!(op, "contains" | "contains_at_top" | "read" | "write" | "set_value") {
        return None;
    }
    let t = a["t"].as_str().unwrap();
    let v = a["v"].as_i64().unwrap() as u32;
    let d = a["d"].as_u64().unwrap() as usize;
    let f = a["f"].as_str().unwrap();
    if is_value_form(op, f) {
        return Some(with_value_type!(t, T => {
            match op {
                "read" => read_value_form::<T>(ancestor(reg, d), f, nt),
                "write" => write_value_form::<T>(ancestor(reg, d), f, v, nt),
                "set_value" => match ancestor(reg, d).set_value::<T>(v) {
                    Some(old) => r("some", old as i64, nt),
                    None => r("none", NOVAL, nt),
                },
                _ => unreachable!(),
            }
        }));
    }
    Some(with_type!(t, T => {
        match op {
            "contains" => r("bool", ancestor(reg, d).contains::<T>() as i64, nt),
            "contains_at_top" => r("bool", ancestor(reg, d).contains_at_top::<T>() as i64, nt),
            "read" => read_form::<T>(ancestor(reg, d), f, nt),
            "write" => write_form::<T>(ancestor(reg, d), f, v, nt),
            _ => unreachable!(),
        }
    }))
}

pub fn depth(reg: &Reg) -> usize {
    let mut n = 1;
    let mut cur = reg;
    while let Some(p) = cur.parent() {
        n += 1;
        cur = p;
    }
    n
}

pub fn act(op: &str, t: &str, v: i64, w: i64, d: usize, f: &str) -> Value {
    json!({"op": op, "t": t, "v": v, "w": w, "d": d, "f": f})
}

pub const READ_FORMS: [&str; 10] = [
    "try_get_value", "try_borrow", "try_borrow_value", "try_borrow_mut", "try_borrow_value_mut",
    "get_value", "borrow", "borrow_value", "borrow_mut", "borrow_value_mut",
];
pub const WRITE_FORMS: [&str; 4] = ["try_borrow_mut", "try_borrow_value_mut", "borrow_mut", "borrow_value_mut"];
pub const ENTRY_FORMS: [&str; 12] = [
    "or_insert", "or_insert_with", "or_default", "and_modify", "and_modify_value", "and_modify_or_insert",
    "occ_get", "occ_get_mut", "occ_into_mut", "occ_insert", "occ_remove", "vac_insert",
];

/// the forms of a list that exist for type `t`
pub fn forms_for<'f>(t: &str, op: &str, all: &'f [&'static str]) -> Vec<&'static str> {
    all.iter().copied().filter(|f| is_value_type(t) || !is_value_form(op, f)).collect()
}

/// Random call, biased toward shadow / remove-underneath / entry-on-shadowed / pop.
pub fn random_act(rng: &mut impl Rng, depth: usize, _nt: usize, nvals: u32, maxdepth: usize) -> Value {
    let t = universe()[rng.gen_range(0..universe().len())];
    // (a Log has one abstract value only)
    let clip = |x: i64| if t == "Log" { 0 } else { x };
    let v = clip(rng.gen_range(0..nvals) as i64);
    let w = clip(rng.gen_range(0..nvals) as i64);
    let d = if rng.gen_bool(0.6) { 0 } else { rng.gen_range(0..depth) };
    match rng.gen_range(0..100) {
        0..=19 => act("insert", t, v, NOVAL, d, "-"),
        20..=29 => act("remove", t, NOVAL, NOVAL, d, if rng.gen_bool(0.7) { "remove" } else { "take" }),
        30..=33 => act("contains", t, NOVAL, NOVAL, d, "-"),
        34..=37 => act("contains_at_top", t, NOVAL, NOVAL, d, "-"),
        38..=47 => act("read", t, NOVAL, NOVAL, d, forms_for(t, "read", &READ_FORMS).choose(rng).unwrap()),
        48..=55 => act("write", t, v, NOVAL, d, forms_for(t, "write", &WRITE_FORMS).choose(rng).unwrap()),
        56..=60 if is_value_type(t) => act("set_value", t, v, NOVAL, d, "-"),
        56..=65 => act("get_mut", t, v, NOVAL, d, "-"),
        66..=81 => {
            let f = *forms_for(t, "entry", &ENTRY_FORMS).choose(rng).unwrap();
            match f {
                "and_modify_or_insert" => act("entry", t, v, w, d, f),
                "or_default" | "occ_get" | "occ_remove" => act("entry", t, NOVAL, NOVAL, d, f),
                _ => act("entry", t, v, NOVAL, d, f),
            }
        }
        82..=90 => {
            if depth < maxdepth { act("push", "-", NOVAL, NOVAL, 0, "-") } else { act("pop", "-", NOVAL, NOVAL, 0, "-") }
        }
        _ => act("pop", "-", NOVAL, NOVAL, 0, "-"),
    }
}

fn reset_rec(run: u64, nt: usize) -> Value {
    json!({"run": run, "act": act("reset", "-", NOVAL, NOVAL, 0, "-"), "res": r("ok", NOVAL, nt),
           "scopes": [empty_map(nt)]})
}

pub fn main(args: &Args) -> usize {
    let nt = set_universe(args).len();
    let mut out = Out::create(&args.str("out"));
    match args.mode.as_str() {
        // scenarios exported from TLC: one json object per line {"run": k, "acts": [...]}
        "replay" => {
            for sc in read_ndjson(&args.str("in")) {
                let run = sc["run"].as_u64().unwrap();
                let mut reg = Reg::new();
                out.emit(&reset_rec(run, nt));
                for (i, a) in sc["acts"].as_array().unwrap().iter().enumerate() {
                    let res = exec(&mut reg, a, nt);
                    out.emit(&json!({"run": run, "i": i, "act": a, "res": res, "scopes": project(&reg, nt)}));
                }
            }
        }
        "random" => {
            let runs = args.num("n", 20);
            let len = args.num("len", 1000);
            let nvals = args.num("vals", 3) as u32;
            let maxdepth = args.num("maxdepth", 4) as usize;
            for run in 0..runs {
                let mut rng = rng(args.seed(), run);
                let mut reg = Reg::new();
                out.emit(&reset_rec(run, nt));
                for i in 0..len {
                    let a = random_act(&mut rng, depth(&reg), nt, nvals, maxdepth);
                    let res = exec(&mut reg, &a, nt);
                    out.emit(&json!({"run": run, "i": i, "act": a, "res": res, "scopes": project(&reg, nt)}));
                }
            }
        }
        other => panic!("unknown mode {other}"),
    }
    out.finish()
}
