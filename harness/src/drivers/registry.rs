//! Driver for spec module `Registry` (C01): executes registry calls on a real
//! `StateRegistry` and records reply + full projected scope chain after every call.
use std::ops::{Deref, DerefMut};

use better_any::{Tid, TidAble};
use mahf::{
    state::registry::{Entry, StateRegistry},
    CustomState, StateError,
};
use rand::{seq::SliceRandom, Rng};
use serde_json::{json, Map, Value};

use crate::util::{caught, read_ndjson, rng, Args, Out, NOVAL};

macro_rules! marker {
    ($($n:ident),*) => {$(
        #[derive(Tid, Default)]
        pub struct $n(pub u32);
        impl CustomState<'_> for $n {}
        impl Deref for $n { type Target = u32; fn deref(&self) -> &u32 { &self.0 } }
        impl DerefMut for $n { fn deref_mut(&mut self) -> &mut u32 { &mut self.0 } }
        impl From<u32> for $n { fn from(v: u32) -> Self { Self(v) } }
    )*};
}
marker!(T1, T2, T3, T4, T5, T6, T7, T8, T9);

pub const TYPE_NAMES: [&str; 9] = ["T1", "T2", "T3", "T4", "T5", "T6", "T7", "T8", "T9"];

#[macro_export]
macro_rules! with_type {
    ($name:expr, $T:ident => $body:expr) => {
        match $name {
            "T1" => { type $T = T1; $body }
            "T2" => { type $T = T2; $body }
            "T3" => { type $T = T3; $body }
            "T4" => { type $T = T4; $body }
            "T5" => { type $T = T5; $body }
            "T6" => { type $T = T6; $body }
            "T7" => { type $T = T7; $body }
            "T8" => { type $T = T8; $body }
            "T9" => { type $T = T9; $body }
            other => panic!("unknown type {other}"),
        }
    };
}

pub trait Marker: for<'a> CustomState<'a> + Deref<Target = u32> + DerefMut + Default + From<u32> {}
impl<T> Marker for T where T: for<'a> CustomState<'a> + Deref<Target = u32> + DerefMut + Default + From<u32> {}

pub type Reg = StateRegistry<'static>;

pub fn err_kind(e: &StateError) -> &'static str {
    match e {
        StateError::NotFound(_) => "notfound",
        StateError::BorrowConflictImm(..) => "conflict_imm",
        StateError::BorrowConflictMut(..) => "conflict_mut",
        StateError::MultipleBorrowConflict(_) => "duplicate",
        StateError::RequiredMissing(..) => "required_missing",
    }
}

pub fn empty_map(ntypes: usize) -> Value {
    let mut m = Map::new();
    for t in &TYPE_NAMES[..ntypes] {
        m.insert(t.to_string(), json!(NOVAL));
    }
    Value::Object(m)
}

pub fn r(k: &str, v: i64, ntypes: usize) -> Value {
    json!({"k": k, "v": v, "m": empty_map(ntypes)})
}

/// Projection of a single registry node: for every marker type the value bound *in this
/// scope* (contains_at_top + read through this node), NoVal otherwise.
pub fn project_scope(reg: &Reg, ntypes: usize) -> Value {
    let mut m = Map::new();
    for t in &TYPE_NAMES[..ntypes] {
        let v = with_type!(*t, T => {
            if reg.contains_at_top::<T>() {
                reg.try_get_value::<T>().map(|v| v as i64).unwrap_or(-1)
            } else {
                NOVAL
            }
        });
        m.insert(t.to_string(), json!(v));
    }
    Value::Object(m)
}

/// Full projected state: root first.
pub fn project(reg: &Reg, ntypes: usize) -> Value {
    let mut chain = Vec::new();
    let mut cur = Some(reg);
    while let Some(r) = cur {
        chain.push(project_scope(r, ntypes));
        cur = r.parent();
    }
    chain.reverse();
    Value::Array(chain)
}

pub fn ancestor_mut(reg: &mut Reg, d: usize) -> &mut Reg {
    let mut cur = reg;
    for _ in 0..d {
        cur = cur.parent_mut().expect("ancestor exists");
    }
    cur
}

pub fn ancestor(reg: &Reg, d: usize) -> &Reg {
    let mut cur = reg;
    for _ in 0..d {
        cur = cur.parent().expect("ancestor exists");
    }
    cur
}

fn sres<T>(x: Result<T, StateError>, f: impl FnOnce(T) -> i64, nt: usize) -> Value {
    match x {
        Ok(t) => r("ok", f(t), nt),
        Err(e) => r(err_kind(&e), NOVAL, nt),
    }
}

fn pres(x: Result<i64, String>, nt: usize) -> Value {
    match x {
        Ok(v) => r("ok", v, nt),
        Err(_) => r("panic", NOVAL, nt),
    }
}

pub fn read_form<T: Marker>(reg: &Reg, f: &str, nt: usize) -> Value {
    match f {
        "try_get_value" => sres(reg.try_get_value::<T>(), |v| v as i64, nt),
        "try_borrow" => sres(reg.try_borrow::<T>(), |g| **g as i64, nt),
        "try_borrow_value" => sres(reg.try_borrow_value::<T>(), |g| *g as i64, nt),
        "try_borrow_mut" => sres(reg.try_borrow_mut::<T>(), |g| **g as i64, nt),
        "try_borrow_value_mut" => sres(reg.try_borrow_value_mut::<T>(), |g| *g as i64, nt),
        "get_value" => pres(caught(|| reg.get_value::<T>() as i64), nt),
        "borrow" => pres(caught(|| **reg.borrow::<T>() as i64), nt),
        "borrow_value" => pres(caught(|| *reg.borrow_value::<T>() as i64), nt),
        "borrow_mut" => pres(caught(|| **reg.borrow_mut::<T>() as i64), nt),
        "borrow_value_mut" => pres(caught(|| *reg.borrow_value_mut::<T>() as i64), nt),
        other => panic!("unknown read form {other}"),
    }
}

pub fn write_form<T: Marker>(reg: &Reg, f: &str, v: u32, nt: usize) -> Value {
    match f {
        "try_borrow_mut" => sres(reg.try_borrow_mut::<T>(), |mut g| std::mem::replace(&mut **g, v) as i64, nt),
        "try_borrow_value_mut" => {
            sres(reg.try_borrow_value_mut::<T>(), |mut g| std::mem::replace(&mut *g, v) as i64, nt)
        }
        "borrow_mut" => pres(caught(|| std::mem::replace(&mut **reg.borrow_mut::<T>(), v) as i64), nt),
        "borrow_value_mut" => {
            pres(caught(|| std::mem::replace(&mut *reg.borrow_value_mut::<T>(), v) as i64), nt)
        }
        other => panic!("unknown write form {other}"),
    }
}

fn entry_form<T: Marker>(reg: &mut Reg, f: &str, v: u32, w: u32, nt: usize) -> Value {
    let entry = reg.entry::<T>();
    let occupied = matches!(entry, Entry::Occupied(_));
    let kind = if occupied { "occupied" } else { "vacant" };
    let val: i64 = match f {
        "or_insert" => **entry.or_insert(T::from(v)) as i64,
        "or_insert_with" => {
            let mut called = false;
            let got = **entry.or_insert_with(|| {
                called = true;
                T::from(v)
            }) as i64;
            // the default closure runs exactly when the entry is vacant
            if called == occupied { -2 } else { got }
        }
        "or_default" => **entry.or_default() as i64,
        "and_modify" => {
            let mut old = NOVAL;
            let _ = entry.and_modify(|mut g| {
                old = **g as i64;
                **g = v;
            });
            old
        }
        "and_modify_value" => {
            let mut old = NOVAL;
            let _ = entry.and_modify_value(|x| {
                old = *x as i64;
                *x = v;
            });
            old
        }
        "and_modify_or_insert" => **entry.and_modify(|mut g| **g = v).or_insert(T::from(w)) as i64,
        "occ_get" => match entry {
            Entry::Occupied(e) => **e.get() as i64,
            Entry::Vacant(_) => NOVAL,
        },
        "occ_get_mut" => match entry {
            Entry::Occupied(mut e) => std::mem::replace(&mut **e.get_mut(), v) as i64,
            Entry::Vacant(_) => NOVAL,
        },
        "occ_into_mut" => match entry {
            Entry::Occupied(e) => std::mem::replace(&mut **e.into_mut(), v) as i64,
            Entry::Vacant(_) => NOVAL,
        },
        "occ_insert" => match entry {
            Entry::Occupied(mut e) => *e.insert(T::from(v)) as i64,
            Entry::Vacant(_) => NOVAL,
        },
        "occ_remove" => match entry {
            Entry::Occupied(e) => *e.remove() as i64,
            Entry::Vacant(_) => NOVAL,
        },
        "vac_insert" => match entry {
            Entry::Occupied(_) => NOVAL,
            Entry::Vacant(e) => **e.insert(T::from(v)) as i64,
        },
        other => panic!("unknown entry form {other}"),
    };
    r(kind, val, nt)
}

/// Executes one call; returns the reply.
pub fn exec(reg: &mut Reg, a: &Value, nt: usize) -> Value {
    let op = a["op"].as_str().unwrap();
    let t = a["t"].as_str().unwrap();
    let v = a["v"].as_i64().unwrap() as u32;
    let w = a["w"].as_i64().unwrap() as u32;
    let d = a["d"].as_u64().unwrap() as usize;
    let f = a["f"].as_str().unwrap();
    match op {
        "push" => {
            let old = std::mem::take(reg);
            *reg = old.into_child();
            r("ok", NOVAL, nt)
        }
        "pop" => {
            let old = std::mem::take(reg);
            let (parent, popped) = old.into_parent();
            let m = project_scope(&popped, nt);
            let popped_has_parent = popped.parent().is_some();
            match parent {
                Some(p) => {
                    *reg = p;
                    json!({"k": if popped_has_parent { "popped_has_parent" } else { "parent" }, "v": NOVAL, "m": m})
                }
                None => {
                    *reg = popped;
                    json!({"k": "noparent", "v": NOVAL, "m": m})
                }
            }
        }
        _ => with_type!(t, T => {
            match op {
                "insert" => match ancestor_mut(reg, d).insert(T::from(v)) {
                    Some(old) => r("some", *old as i64, nt),
                    None => r("none", NOVAL, nt),
                },
                "remove" => match f {
                    "remove" => sres(ancestor_mut(reg, d).remove::<T>(), |x| *x as i64, nt),
                    "take" => pres(caught(|| *ancestor_mut(reg, d).take::<T>() as i64), nt),
                    other => panic!("unknown remove form {other}"),
                },
                "contains" => r("bool", ancestor(reg, d).contains::<T>() as i64, nt),
                "contains_at_top" => r("bool", ancestor(reg, d).contains_at_top::<T>() as i64, nt),
                "read" => read_form::<T>(ancestor(reg, d), f, nt),
                "write" => write_form::<T>(ancestor(reg, d), f, v, nt),
                "set_value" => match ancestor(reg, d).set_value::<T>(v) {
                    Some(old) => r("some", old as i64, nt),
                    None => r("none", NOVAL, nt),
                },
                "get_mut" => match ancestor_mut(reg, d).get_mut::<T>() {
                    Some(x) => r("some", std::mem::replace(&mut **x, v) as i64, nt),
                    None => r("none", NOVAL, nt),
                },
                "entry" => entry_form::<T>(ancestor_mut(reg, d), f, v, w, nt),
                other => panic!("unknown op {other}"),
            }
        }),
    }
}

/// The calls that need only `&self` (usable while guards are alive).
pub fn exec_shared(reg: &Reg, a: &Value, nt: usize) -> Option<Value> {
    let op = a["op"].as_str().unwrap();
    if !matches!(op, "contains" | "contains_at_top" | "read" | "write" | "set_value") {
        return None;
    }
    let t = a["t"].as_str().unwrap();
    let v = a["v"].as_i64().unwrap() as u32;
    let d = a["d"].as_u64().unwrap() as usize;
    let f = a["f"].as_str().unwrap();
    Some(with_type!(t, T => {
        match op {
            "contains" => r("bool", ancestor(reg, d).contains::<T>() as i64, nt),
            "contains_at_top" => r("bool", ancestor(reg, d).contains_at_top::<T>() as i64, nt),
            "read" => read_form::<T>(ancestor(reg, d), f, nt),
            "write" => write_form::<T>(ancestor(reg, d), f, v, nt),
            "set_value" => match ancestor(reg, d).set_value::<T>(v) {
                Some(old) => r("some", old as i64, nt),
                None => r("none", NOVAL, nt),
            },
            _ => unreachable!(),
        }
    }))
}

pub fn depth(reg: &Reg) -> usize {
    let mut n = 1;
    let mut cur = reg;
    while let Some(p) = cur.parent() {
        n += 1;
        cur = p;
    }
    n
}

pub fn act(op: &str, t: &str, v: i64, w: i64, d: usize, f: &str) -> Value {
    json!({"op": op, "t": t, "v": v, "w": w, "d": d, "f": f})
}

pub const READ_FORMS: [&str; 10] = [
    "try_get_value", "try_borrow", "try_borrow_value", "try_borrow_mut", "try_borrow_value_mut",
    "get_value", "borrow", "borrow_value", "borrow_mut", "borrow_value_mut",
];
pub const WRITE_FORMS: [&str; 4] = ["try_borrow_mut", "try_borrow_value_mut", "borrow_mut", "borrow_value_mut"];
pub const ENTRY_FORMS: [&str; 12] = [
    "or_insert", "or_insert_with", "or_default", "and_modify", "and_modify_value", "and_modify_or_insert",
    "occ_get", "occ_get_mut", "occ_into_mut", "occ_insert", "occ_remove", "vac_insert",
];

/// Random call, biased toward shadow / remove-underneath / entry-on-shadowed / pop.
pub fn random_act(rng: &mut impl Rng, depth: usize, nt: usize, nvals: u32, maxdepth: usize) -> Value {
    let t = TYPE_NAMES[rng.gen_range(0..nt)];
    let v = rng.gen_range(0..nvals) as i64;
    let w = rng.gen_range(0..nvals) as i64;
    let d = if rng.gen_bool(0.6) { 0 } else { rng.gen_range(0..depth) };
    match rng.gen_range(0..100) {
        0..=19 => act("insert", t, v, NOVAL, d, "-"),
        20..=29 => act("remove", t, NOVAL, NOVAL, d, if rng.gen_bool(0.7) { "remove" } else { "take" }),
        30..=33 => act("contains", t, NOVAL, NOVAL, d, "-"),
        34..=37 => act("contains_at_top", t, NOVAL, NOVAL, d, "-"),
        38..=47 => act("read", t, NOVAL, NOVAL, d, READ_FORMS.choose(rng).unwrap()),
        48..=55 => act("write", t, v, NOVAL, d, WRITE_FORMS.choose(rng).unwrap()),
        56..=60 => act("set_value", t, v, NOVAL, d, "-"),
        61..=65 => act("get_mut", t, v, NOVAL, d, "-"),
        66..=81 => {
            let f = *ENTRY_FORMS.choose(rng).unwrap();
            match f {
                "and_modify_or_insert" => act("entry", t, v, w, d, f),
                "or_default" | "occ_get" | "occ_remove" => act("entry", t, NOVAL, NOVAL, d, f),
                _ => act("entry", t, v, NOVAL, d, f),
            }
        }
        82..=90 => {
            if depth < maxdepth { act("push", "-", NOVAL, NOVAL, 0, "-") } else { act("pop", "-", NOVAL, NOVAL, 0, "-") }
        }
        _ => act("pop", "-", NOVAL, NOVAL, 0, "-"),
    }
}

fn reset_rec(run: u64, nt: usize) -> Value {
    json!({"run": run, "act": act("reset", "-", NOVAL, NOVAL, 0, "-"), "res": r("ok", NOVAL, nt),
           "scopes": [empty_map(nt)]})
}

pub fn main(args: &Args) -> usize {
    let nt = args.num("types", 2) as usize;
    let mut out = Out::create(&args.str("out"));
    match args.mode.as_str() {
        // scenarios exported from TLC: one json object per line {"run": k, "acts": [...]}
        "replay" => {
            for sc in read_ndjson(&args.str("in")) {
                let run = sc["run"].as_u64().unwrap();
                let mut reg = Reg::new();
                out.emit(&reset_rec(run, nt));
                for (i, a) in sc["acts"].as_array().unwrap().iter().enumerate() {
                    let res = exec(&mut reg, a, nt);
                    out.emit(&json!({"run": run, "i": i, "act": a, "res": res, "scopes": project(&reg, nt)}));
                }
            }
        }
        "random" => {
            let runs = args.num("n", 20);
            let len = args.num("len", 1000);
            let nvals = args.num("vals", 3) as u32;
            let maxdepth = args.num("maxdepth", 4) as usize;
            for run in 0..runs {
                let mut rng = rng(args.seed(), run);
                let mut reg = Reg::new();
                out.emit(&reset_rec(run, nt));
                for i in 0..len {
                    let a = random_act(&mut rng, depth(&reg), nt, nvals, maxdepth);
                    let res = exec(&mut reg, &a, nt);
                    out.emit(&json!({"run": run, "i": i, "act": a, "res": res, "scopes": project(&reg, nt)}));
                }
            }
        }
        other => panic!("unknown mode {other}"),
    }
    out.finish()
}
