//! Driver for spec module `Conditions` (C10): evaluates the real mahf conditions through the
//! public `Condition::{init, evaluate}` on prepared states, runs real `Loop`s with a real
//! `LessThanN::iterations(n)` and a counting body, and records reply + projected state
//! (observed lens values, progress fractions) after every call.
//!
//! Number mapping (floats never reach the spec): u32 lenses "iter"/"eval" take the integer as
//! is; "fval" (f64 state) = k * 0.5; "obj" (best objective value) = k * 0.25, as do epsilon and
//! the known optimum.  The signed lenses "sval" (f64 state) = (c - SOFF) * 0.5 and "ival" (i32
//! state) = c - SOFF, bounds of less-than-n on them likewise; `f = "nz"` on a call makes its zero
//! the float -0.0.  Progress (f64) is logged as the unique fraction num/den (den <= MAXDEN, sign in
//! the numerator) whose correctly rounded quotient is bit-identical to it; NaN = 0/0, +inf = 1/0,
//! -inf = -1/0, either zero = 0/1.
use mahf::{
    components::{Block, Loop, Scope},
    conditions::{
        common::{DeltaEqChecker, PartialEqChecker},
        And, ChangeOf, EveryN, LessThanN, Not, OptimumReached, Or, RandomChance,
    },
    lens::{common::BestObjectiveValueLens, ValueOf},
    state::common::{BestIndividual, Evaluations, Iterations, Progress},
    Component, Condition, Individual, Random, SingleObjective,
};
use rand::Rng;
use serde_json::{json, Value};

use crate::{
    problems_cond::{
        CondProblem, CountBody, CountTests, EvalLog, FVal, IVal, LoopLog, NestLog, NestTests, Probe, Raise, SVal, Scripted,
        SetIter, St,
    },
    util::{caught, read_ndjson, rng, Args, Out},
};

const NOVAL: i64 = -1;
const GONE: i64 = -2;
const MAXDEN: i64 = 40_000;
const LENSES: [&str; 4] = ["iter", "eval", "fval", "obj"];
/// code of the number 0 on the signed lenses
const SOFF: i64 = 100_000;
/// code of "not a number" on the float lenses (value seen or bound)
const NANV: i64 = 900_000;

type Cond = Box<dyn Condition<CondProblem>>;

// ------------------------------------------------------------------ projections

/// Fraction whose correctly rounded quotient is bit-identical to `x` (continued fractions).
pub fn frac(x: f64) -> (i64, i64) {
    if x.is_nan() {
        return (0, 0);
    }
    if x == f64::INFINITY {
        return (1, 0);
    }
    if x == f64::NEG_INFINITY {
        return (-1, 0);
    }
    if x == 0.0 {
        return (0, 1);
    }
    if x < 0.0 {
        return match frac(-x) {
            (-7, -7) => (-7, -7),
            (a, b) => (-a, b),
        };
    }
    let (mut h0, mut k0, mut h1, mut k1) = (0i64, 1i64, 1i64, 0i64);
    let mut y = x;
    for _ in 0..64 {
        let a = y.floor();
        if a > 1e9 {
            break;
        }
        let a = a as i64;
        let (h2, k2) = (a * h1 + h0, a * k1 + k0);
        if k2 > MAXDEN || h2 > 1_000_000_000_000 {
            break;
        }
        if (h2 as f64 / k2 as f64).to_bits() == x.to_bits() {
            return (h2, k2);
        }
        (h0, k0, h1, k1) = (h1, k1, h2, k2);
        let fr = y - a as f64;
        if fr <= 0.0 {
            break;
        }
        y = 1.0 / fr;
    }
    (-7, -7)
}

fn exact_int(x: f64, scale: f64) -> i64 {
    let k = x * scale;
    if k.fract() == 0.0 && k.abs() < 1e15 {
        k as i64
    } else {
        -7
    }
}

fn fr(p: Option<f64>) -> Value {
    match p {
        Some(x) => {
            let (a, b) = frac(x);
            json!({"num": a, "den": b})
        }
        None => json!({"num": -9, "den": -9}),
    }
}

fn project(st: &St) -> (Value, Value) {
    let it = st.try_get_value::<Iterations>().map(|v| v as i64).unwrap_or(NOVAL);
    let ev = st.try_get_value::<Evaluations>().map(|v| v as i64).unwrap_or(NOVAL);
    let fv = st.try_get_value::<FVal>().map(|v| if v.is_nan() { NANV } else { exact_int(v, 2.0) }).unwrap_or(NOVAL);
    let ob = if !st.contains::<BestIndividual<CondProblem>>() {
        GONE
    } else {
        st.best_objective_value().map(|o| exact_int(o.value(), 4.0)).unwrap_or(NOVAL)
    };
    let halves = |v: f64| if v.is_nan() { NANV } else if (v * 2.0).fract() == 0.0 && v.abs() < 1e9 { SOFF + (v * 2.0) as i64 } else { -7 };
    let sv = st.try_get_value::<SVal>().map(halves).unwrap_or(NOVAL);
    let iv = st.try_get_value::<IVal>().map(|v| SOFF + v as i64).unwrap_or(NOVAL);
    let obs = json!({"iter": it, "eval": ev, "fval": fv, "obj": ob, "sval": sv, "ival": iv});
    let progress = json!({
        "iter": fr(st.try_get_value::<Progress<ValueOf<Iterations>>>().ok()),
        "eval": fr(st.try_get_value::<Progress<ValueOf<Evaluations>>>().ok()),
        "fval": fr(st.try_get_value::<Progress<ValueOf<FVal>>>().ok()),
        "obj": {"num": 0, "den": 1},
        "sval": fr(st.try_get_value::<Progress<ValueOf<SVal>>>().ok()),
        "ival": fr(st.try_get_value::<Progress<ValueOf<IVal>>>().ok()),
    });
    (obs, progress)
}

// ------------------------------------------------------------------ building the real conditions

/// The float a code of lens "sval" stands for; `nz`: its zero is -0.0.
fn sval_of(c: i64, nz: bool) -> f64 {
    if c == NANV {
        return f64::NAN;
    }
    let x = (c - SOFF) as f64 * 0.5;
    if nz && x == 0.0 {
        -0.0
    } else {
        x
    }
}

fn lt_cond(l: &str, n: i64, nz: bool) -> Cond {
    match l {
        "iter" => LessThanN::iterations(n as u32),
        "eval" => LessThanN::evaluations(n as u32),
        "fval" => LessThanN::new(if n == NANV { f64::NAN } else { n as f64 * 0.5 }, ValueOf::<FVal>::new()),
        "sval" => LessThanN::new(sval_of(n, nz), ValueOf::<SVal>::new()),
        "ival" => LessThanN::new((n - SOFF) as i32, ValueOf::<IVal>::new()),
        other => panic!("less-than-n: unknown lens {other}"),
    }
}

fn every_cond(l: &str, n: i64) -> Cond {
    match l {
        "iter" => EveryN::iterations(n as u32),
        "eval" => EveryN::new(n as u32, ValueOf::<Evaluations>::new()),
        other => panic!("every-n: unknown lens {other}"),
    }
}

fn objective(k: i64) -> SingleObjective {
    SingleObjective::try_from(k as f64 * 0.25).expect("legal objective")
}

fn co_cond(l: &str, d: i64) -> Cond {
    match (l, d) {
        ("iter", NOVAL) => ChangeOf::new(PartialEqChecker::new::<u32>(), ValueOf::<Iterations>::new()),
        ("iter", d) => ChangeOf::new(DeltaEqChecker::new(d as u32), ValueOf::<Iterations>::new()),
        ("eval", NOVAL) => ChangeOf::new(PartialEqChecker::new::<u32>(), ValueOf::<Evaluations>::new()),
        ("eval", d) => ChangeOf::new(DeltaEqChecker::new(d as u32), ValueOf::<Evaluations>::new()),
        ("fval", NOVAL) => ChangeOf::new(PartialEqChecker::new::<f64>(), ValueOf::<FVal>::new()),
        ("sval", NOVAL) => ChangeOf::new(PartialEqChecker::new::<f64>(), ValueOf::<SVal>::new()),
        ("ival", NOVAL) => ChangeOf::new(PartialEqChecker::new::<i32>(), ValueOf::<IVal>::new()),
        ("ival", d) => ChangeOf::new(DeltaEqChecker::new(d as i32), ValueOf::<IVal>::new()),
        ("obj", NOVAL) => ChangeOf::new(
            PartialEqChecker::new::<SingleObjective>(),
            BestObjectiveValueLens::<CondProblem>::new(),
        ),
        ("obj", d) => ChangeOf::new(DeltaEqChecker::new(objective(d)), BestObjectiveValueLens::<CondProblem>::new()),
        other => panic!("change-of: unsupported {other:?}"),
    }
}

/// Node ids by position: root 1, i-th child of x = 10 x + i.
fn build(fm: &Value, id: i64) -> Cond {
    let kids = || -> Vec<Cond> {
        fm["c"].as_array().unwrap().iter().enumerate().map(|(i, c)| build(c, 10 * id + i as i64 + 1)).collect()
    };
    match fm["k"].as_str().unwrap() {
        "leaf" => {
            let out = match fm["o"].as_str().unwrap() {
                "f" => 0,
                "t" => 1,
                _ => 2,
            };
            Box::new(Scripted { id, out })
        }
        "not" => Not::new(kids().pop().expect("operand of not")),
        "and" => And::new(kids()),
        "or" => Or::new(kids()),
        other => panic!("unknown node {other}"),
    }
}

// ------------------------------------------------------------------ executing one call

fn r(k: &str, b: i64, log: Vec<i64>, p: i64, t: i64) -> Value {
    json!({"k": k, "b": b, "log": log, "p": p, "t": t, "ev": []})
}

/// Observations a nested program may make before it is cut off as "runaway".
const NEST_FUEL: i64 = 1500;

/// Real component tree of a `nest` program; node ids by position as for formulas.  A scope is
/// framed by two probes standing in the enclosing scope.
fn build_prog(node: &Value, id: i64) -> Box<dyn Component<CondProblem>> {
    let kids = || -> Vec<Box<dyn Component<CondProblem>>> {
        node["c"].as_array().unwrap().iter().enumerate().map(|(i, c)| build_prog(c, 10 * id + i as i64 + 1)).collect()
    };
    let n = node["n"].as_i64().unwrap();
    match node["k"].as_str().unwrap() {
        "block" => Block::new(kids()),
        "tick" => Box::new(Probe { id, kind: "tick" }),
        "set" => Box::new(SetIter { v: n as u32 }),
        "loop" => Loop::new(Box::new(NestTests { id, inner: LessThanN::iterations(n as u32) }), kids()),
        "scope" => Block::new(vec![
            Box::new(Probe { id, kind: "in" }) as Box<dyn Component<CondProblem>>,
            Scope::new(kids()),
            Box::new(Probe { id, kind: "out" }),
        ]),
        other => panic!("unknown program node {other}"),
    }
}

fn rk(k: &str) -> Value {
    r(k, NOVAL, vec![], NOVAL, NOVAL)
}

fn reply(x: mahf::ExecResult<bool>) -> Value {
    match x {
        Ok(b) => r("bool", b as i64, vec![], NOVAL, NOVAL),
        Err(_) => rk("err"),
    }
}

fn next_up(x: f64) -> f64 {
    if x == 0.0 {
        f64::from_bits(1)
    } else if x > 0.0 {
        f64::from_bits(x.to_bits() + 1)
    } else {
        f64::from_bits(x.to_bits() - 1)
    }
}

fn step(mut x: f64, k: i64) -> f64 {
    for _ in 0..k.abs() {
        x = if k > 0 { next_up(x) } else { -next_up(-x) };
    }
    x
}

fn set_best(st: &mut St, value: Option<f64>) {
    let mut best = BestIndividual::<CondProblem>::new();
    if let Some(v) = value {
        *best = Some(Individual::new((), SingleObjective::try_from(v).expect("legal objective")));
    }
    st.insert(best);
}

fn set_obs(st: &mut St, l: &str, v: i64, nz: bool) {
    match (l, v) {
        ("sval", NOVAL) => drop(st.remove::<SVal>()),
        ("sval", v) => drop(st.insert(SVal(sval_of(v, nz)))),
        ("ival", NOVAL) => drop(st.remove::<IVal>()),
        ("ival", v) => drop(st.insert(IVal((v - SOFF) as i32))),
        ("iter", NOVAL) => drop(st.remove::<Iterations>()),
        ("iter", v) => drop(st.insert(Iterations(v as u32))),
        ("eval", NOVAL) => drop(st.remove::<Evaluations>()),
        ("eval", v) => drop(st.insert(Evaluations(v as u32))),
        ("fval", NOVAL) => drop(st.remove::<FVal>()),
        ("fval", NANV) => drop(st.insert(FVal(f64::NAN))),
        ("fval", v) => drop(st.insert(FVal(v as f64 * 0.5))),
        ("obj", GONE) => drop(st.remove::<BestIndividual<CondProblem>>()),
        ("obj", NOVAL) => set_best(st, None),
        ("obj", v) => set_best(st, Some(v as f64 * 0.25)),
        other => panic!("set: unsupported {other:?}"),
    }
}

fn optimum(st: &mut St, eps: f64, opt: f64) -> Value {
    match OptimumReached::new::<CondProblem>(eps) {
        Err(_) => rk("ctor_err"),
        Ok(c) => {
            let p = CondProblem { opt };
            match c.init(&p, st) {
                Ok(()) => reply(c.evaluate(&p, st)),
                Err(_) => rk("err"),
            }
        }
    }
}

pub fn exec(st: &mut St, a: &Value) -> Value {
    let p0 = CondProblem { opt: 0.0 };
    let op = a["op"].as_str().unwrap();
    let l = a["l"].as_str().unwrap();
    let n = a["n"].as_i64().unwrap();
    let d = a["d"].as_i64().unwrap();
    let f = a["f"].as_str().unwrap();
    let (x, y, z) = (a["x"].as_i64().unwrap(), a["y"].as_i64().unwrap(), a["z"].as_i64().unwrap());
    match op {
        "set" => {
            set_obs(st, l, x, f == "nz");
            rk("ok")
        }
        "lt_init" => match lt_cond(l, SOFF + 1, false).init(&p0, st) {
            Ok(()) => rk("ok"),
            Err(_) => rk("err"),
        },
        "lt" => reply(lt_cond(l, n, f == "nz").evaluate(&p0, st)),
        "sloop" => {
            // Loop(while less-than-n(signed lens), body raising the value by d units per pass), run as a
            // configuration run does; the caps turn a loop that does not end into data
            let v0 = match l {
                "sval" => st.try_get_value::<SVal>().map(|v| if v.is_nan() { n } else { SOFF + (v * 2.0) as i64 }).unwrap_or(n),
                _ => st.try_get_value::<IVal>().map(|v| SOFF + v as i64).unwrap_or(n),
            };
            let cap = ((n - v0).max(0) / d.max(1)) + 16;
            st.insert(LoopLog::default());
            let body: Box<dyn Component<CondProblem>> = Box::new(Raise { float: l == "sval", step: d, off: SOFF, cap });
            let lp = Loop::new(Box::new(CountTests { inner: lt_cond(l, n, f == "nz"), cap }), body);
            let out = (|| {
                lp.init(&p0, st)?;
                lp.require(&p0, &st.requirements())?;
                lp.execute(&p0, st)
            })();
            let (tests, seen) = {
                let log = st.borrow::<LoopLog>();
                (log.tests, log.seen.clone())
            };
            let passes = seen.len() as i64;
            match out {
                Ok(()) => r("ok", NOVAL, seen, passes, tests),
                Err(e) if e.to_string().contains("runaway") => r("runaway", NOVAL, vec![], passes, tests),
                Err(_) => r("err", NOVAL, seen, passes, tests),
            }
        }
        "every" => reply(every_cond(l, n).evaluate(&p0, st)),
        "co_init" => match co_cond(l, NOVAL).init(&p0, st) {
            Ok(()) => rk("ok"),
            Err(_) => rk("err"),
        },
        "co" => reply(co_cond(l, d).evaluate(&p0, st)),
        "optimum" => optimum(st, n as f64 * 0.25, y as f64 * 0.25),
        "optimum_at" => {
            // lattice (z = 0) or float-neighbour case (z > 0): opt, eps random doubles, best is
            // (x - y - n) representable steps away from the double opt + eps
            let (eps, opt, best) = if z == 0 {
                (n as f64 * 0.25, y as f64 * 0.25, x as f64 * 0.25)
            } else {
                let mut g = rng(z as u64, 77);
                let mag = [1e-3, 1.0, 1e3, 1e9][g.gen_range(0..4)];
                let opt = (g.gen::<f64>() - 0.5) * mag;
                let eps = match n {
                    0 => 0.0,
                    n if n < 0 => -g.gen::<f64>() * mag - f64::MIN_POSITIVE,
                    _ => g.gen::<f64>() * mag * [1e-9, 1e-3, 1.0][g.gen_range(0..3)],
                };
                (eps, opt, step(opt + eps, x - y - n))
            };
            let saved = st.remove::<BestIndividual<CondProblem>>().ok();
            match f {
                "some" => set_best(st, Some(best)),
                "none" => set_best(st, None),
                _ => {}
            }
            let res = optimum(st, eps, opt);
            let _ = st.remove::<BestIndividual<CondProblem>>();
            if let Some(b) = saved {
                st.insert(b);
            }
            res
        }
        "rc" => reply(RandomChance::new::<CondProblem>(n as f64 / 10.0).evaluate(&p0, st)),
        "rc_end" => rk("ok"),
        "logic" => {
            let c = build(&a["fm"], 1);
            st.insert(EvalLog::default());
            let out = c.init(&p0, st).and_then(|()| c.evaluate(&p0, st));
            let log = st.borrow::<EvalLog>().0.clone();
            match out {
                Ok(b) => r("bool", b as i64, log, NOVAL, NOVAL),
                Err(_) => r("err", NOVAL, log, NOVAL, NOVAL),
            }
        }
        "loop" => {
            let v0 = st.try_get_value::<Iterations>().map(|v| v as i64).unwrap_or(0);
            let cap = n.max(v0) + 16;
            st.insert(LoopLog::default());
            let body: Box<dyn Component<CondProblem>> = Box::new(CountBody { cap });
            let lp = Loop::new(Box::new(CountTests { inner: LessThanN::iterations(n as u32), cap }), body);
            let out = (|| {
                if f == "init" {
                    lp.init(&p0, st)?;
                    lp.require(&p0, &st.requirements())?;
                }
                lp.execute(&p0, st)
            })();
            let (tests, seen) = {
                let log = st.borrow::<LoopLog>();
                (log.tests, log.seen.clone())
            };
            let passes = seen.len() as i64;
            match out {
                Ok(()) => r("ok", NOVAL, seen, passes, tests),
                Err(e) if e.to_string().contains("runaway") => r("runaway", NOVAL, vec![], passes, tests),
                Err(_) => r("err", NOVAL, seen, passes, tests),
            }
        }
        "nest" => {
            // the program is run as a configuration run does: init, require, execute
            let prog = build_prog(&a["pg"], 1);
            st.insert(NestLog { ev: vec![], fuel: NEST_FUEL });
            let out = (|| {
                prog.init(&p0, st)?;
                prog.require(&p0, &st.requirements())?;
                prog.execute(&p0, st)
            })();
            let ev: Vec<Value> = match st.try_borrow::<NestLog>() {
                Ok(log) => log
                    .ev
                    .iter()
                    .map(|(id, kind, it, pr)| {
                        let f = fr(*pr);
                        json!({"id": id, "k": kind, "v": it, "num": f["num"], "den": f["den"]})
                    })
                    .collect(),
                Err(_) => vec![],
            };
            let k = match out {
                Ok(()) => "ok",
                Err(e) if e.to_string().contains("runaway") => "runaway",
                Err(_) => "err",
            };
            json!({"k": k, "b": NOVAL, "log": [], "p": NOVAL, "t": NOVAL, "ev": ev})
        }
        other => panic!("unknown op {other}"),
    }
}

fn exec_caught(st: &mut St, a: &Value) -> Value {
    match caught(|| exec(st, a)) {
        Ok(v) => v,
        Err(_) => rk("panic"),
    }
}

// ------------------------------------------------------------------ runs

fn pnode(k: &str, n: i64, c: Vec<Value>) -> Value {
    json!({"k": k, "n": n, "c": c})
}

fn nest_act(body: Vec<Value>) -> Value {
    let mut a = act("nest", "iter", NOVAL, NOVAL, "init", NOVAL, NOVAL, NOVAL);
    a["pg"] = pnode("block", 0, body);
    a
}

/// Random forest of loops / scopes / ticks / sets.  `in_loop`: a loop around shares the scope
/// (no `set` there: it could keep that loop running forever).  `weight` = product of the
/// (bound + 1) of the loops around, `budget` bounds the observations the program will make.
fn random_prog(g: &mut impl Rng, depth: u32, in_loop: bool, weight: i64, budget: &mut i64, well: bool) -> Vec<Value> {
    let mut out = Vec::new();
    let mut level_loop = in_loop;
    for _ in 0..g.gen_range(0..=3) {
        if *budget < 2 * weight {
            break;
        }
        let pick = g.gen_range(0..100);
        if depth == 0 || pick < 30 {
            *budget -= weight;
            out.push(pnode("tick", 0, vec![]));
        } else if pick < 38 && !in_loop && !well {
            out.push(pnode("set", g.gen_range(0..=4), vec![]));
        } else if pick < 70 {
            *budget -= 2 * weight;
            out.push(pnode("scope", 0, random_prog(g, depth - 1, false, weight, budget, well)));
        } else if !(well && level_loop) {
            // in a well-scoped program a scope hosts one loop at most
            let n = g.gen_range(0..=3);
            let w = weight * (n + 1);
            if *budget < 2 * w {
                continue;
            }
            *budget -= w;
            level_loop = true;
            out.push(pnode("loop", n, random_prog(g, depth - 1, true, w, budget, well)));
        }
    }
    out
}

fn leaf(o: &str) -> Value {
    json!({"k": "leaf", "o": o, "c": []})
}

fn act(op: &str, l: &str, n: i64, d: i64, f: &str, x: i64, y: i64, z: i64) -> Value {
    json!({"op": op, "l": l, "n": n, "d": d, "f": f, "x": x, "y": y, "z": z, "fm": leaf("-"), "pg": pnode("none", 0, vec![])})
}

/// A fresh state as a configuration run would prepare it: random generator, and `init` of
/// less-than-n / change-of for every lens (nothing is observable yet).
fn fresh(seed: u64) -> St {
    let p0 = CondProblem { opt: 0.0 };
    let mut st = St::new();
    st.insert(Random::new(seed));
    st.insert(EvalLog::default());
    st.insert(LoopLog::default());
    for l in ["iter", "eval", "fval", "sval", "ival"] {
        lt_cond(l, SOFF + 1, false).init(&p0, &mut st).unwrap();
    }
    for l in LENSES.into_iter().chain(["sval", "ival"]) {
        co_cond(l, NOVAL).init(&p0, &mut st).unwrap();
    }
    st
}

struct Run<'a> {
    out: &'a mut Out,
    st: St,
    run: u64,
    i: u64,
    obs: Value,
}

impl<'a> Run<'a> {
    fn start(out: &'a mut Out, run: u64, seed: u64) -> Self {
        let st = fresh(seed);
        let (obs, progress) = project(&st);
        out.emit(&json!({"run": run, "act": act("reset", "-", NOVAL, NOVAL, "-", NOVAL, NOVAL, NOVAL),
                         "res": rk("ok"), "obs": obs, "progress": progress, "seed": seed}));
        Self { out, st, run, i: 0, obs }
    }

    fn call(&mut self, a: Value) -> Value {
        let res = exec_caught(&mut self.st, &a);
        let (obs, progress) = project(&self.st);
        self.out.emit(&json!({"run": self.run, "i": self.i, "act": a, "res": res, "obs": obs, "progress": progress}));
        self.i += 1;
        self.obs = obs;
        res
    }

    fn seen(&self, l: &str) -> i64 {
        self.obs[l].as_i64().unwrap()
    }
}

fn random_formula(g: &mut impl Rng, depth: u32, budget: &mut i32) -> Value {
    if depth == 0 || *budget <= 1 || g.gen_bool(0.3) {
        *budget -= 1;
        return leaf(match g.gen_range(0..100) {
            0..=45 => "t",
            46..=93 => "f",
            _ => "e",
        });
    }
    let k = ["not", "and", "or"][g.gen_range(0..3)];
    let arity = if k == "not" { 1 } else { g.gen_range(0..=4) };
    let c: Vec<Value> = (0..arity).map(|_| random_formula(g, depth - 1, budget)).collect();
    json!({"k": k, "o": "-", "c": c})
}

fn near(g: &mut impl Rng, base: i64, spread: i64, max: i64) -> i64 {
    (base + g.gen_range(-spread..=spread)).clamp(0, max)
}

/// One random call; `big` selects large parameters (n up to 10^4) instead of a dense small range.
fn random_step(run: &mut Run, g: &mut impl Rng, big: bool) {
    let vmax: i64 = if big { 30_000 } else { 8 };
    let nmax: i64 = if big { 10_000 } else { 6 };
    fn pick(g: &mut impl Rng, big: bool, nmax: i64) -> i64 {
        if big {
            [1, 2, 3, 7, 10, 64, 100, 1000, 4097, 9999, 10_000][g.gen_range(0..11)]
        } else {
            g.gen_range(0..=nmax)
        }
    }
    match g.gen_range(0..125) {
        121..=124 => {
            // float lenses: a value (or a bound) that is not a number, then less-than-n / change-of / a loop on it
            let l = ["fval", "sval"][g.gen_range(0..2)];
            let some = |g: &mut dyn rand::RngCore| if l == "sval" { SOFF + g.gen_range(-6..=6) } else { g.gen_range(0..=8) };
            let (v, n) = match g.gen_range(0..4) {
                0 => (NANV, NANV),
                1 => (some(g), NANV),
                _ => (NANV, some(g)),
            };
            run.call(act("set", l, NOVAL, NOVAL, "-", v, NOVAL, NOVAL));
            match g.gen_range(0..4) {
                0 => drop(run.call(act("co", l, NOVAL, NOVAL, "-", NOVAL, NOVAL, NOVAL))),
                1 if l == "sval" && n != NANV => drop(run.call(act("sloop", l, n, g.gen_range(1..=3), "-", NOVAL, NOVAL, NOVAL))),
                _ => drop(run.call(act("lt", l, n, NOVAL, "-", NOVAL, NOVAL, NOVAL))),
            }
        }
        107..=120 => {
            // signed lenses: negative, zero (either sign) and fractional values and bounds
            let l = ["sval", "ival"][g.gen_range(0..2)];
            let span: i64 = if big { 20_000 } else { 6 };
            let n = SOFF + if g.gen_bool(0.2) { 0 } else { g.gen_range(-span..=span) };
            let nz = |g: &mut dyn rand::RngCore, c: i64| if l == "sval" && c == SOFF && g.gen_bool(0.5) { "nz" } else { "-" };
            match g.gen_range(0..12) {
                0..=5 => {
                    // a value next to n, next to -n, next to zero, or anywhere; then less-than-n on it
                    let v = match g.gen_range(0..4) {
                        0 => n + g.gen_range(-2..=2),
                        1 => 2 * SOFF - n + g.gen_range(-2..=2),
                        2 => SOFF + g.gen_range(-2..=2),
                        _ => SOFF + g.gen_range(-span..=span),
                    };
                    let fv = nz(g, v);
                    run.call(act("set", l, NOVAL, NOVAL, fv, v, NOVAL, NOVAL));
                    let fnn = nz(g, n);
                    run.call(act("lt", l, n, NOVAL, fnn, NOVAL, NOVAL, NOVAL));
                }
                6 => {
                    let fnn = nz(g, n);
                    run.call(act("lt", l, n, NOVAL, fnn, NOVAL, NOVAL, NOVAL));
                }
                7 => {
                    run.call(act("set", l, NOVAL, NOVAL, "-", NOVAL, NOVAL, NOVAL));
                }
                8 => {
                    let op = ["lt_init", "co_init"][g.gen_range(0..2)];
                    run.call(act(op, l, NOVAL, NOVAL, "-", NOVAL, NOVAL, NOVAL));
                }
                9 => {
                    // change-of across zero: a value a few steps from the one seen, then the condition
                    let cur = run.seen(l);
                    if g.gen_bool(0.6) && cur >= 0 {
                        let v = (cur + g.gen_range(-4..=4)).max(SOFF - span);
                        let fv = nz(g, v);
                        run.call(act("set", l, NOVAL, NOVAL, fv, v, NOVAL, NOVAL));
                    }
                    let d = if l == "sval" || g.gen_bool(0.4) { NOVAL } else { g.gen_range(0..=4) };
                    run.call(act("co", l, NOVAL, d, "-", NOVAL, NOVAL, NOVAL));
                }
                _ => {
                    // a loop raising the value by d per pass towards n, from below, from n itself, from above
                    let d = g.gen_range(1..=3);
                    let v0 = n - d * g.gen_range(-1..=if big { 40 } else { 8 }) + g.gen_range(-1..=1);
                    // (from wherever the value stands only if that is at most 64 passes away)
                    let cur = run.seen(l);
                    if g.gen_bool(0.9) || cur < 0 || (n - cur) / d > 64 {
                        let fv = nz(g, v0);
                        run.call(act("set", l, NOVAL, NOVAL, fv, v0, NOVAL, NOVAL));
                    }
                    let fnn = nz(g, n);
                    run.call(act("sloop", l, n, d, fnn, NOVAL, NOVAL, NOVAL));
                }
            }
        }
        100..=106 => {
            // nested loops and scopes; two thirds of the programs well-scoped (every loop on its own counter)
            let mut budget = 400;
            let well = g.gen_range(0..3) > 0;
            let body = random_prog(g, 4, false, 1, &mut budget, well);
            run.call(nest_act(body));
        }
        0..=21 => {
            let l = LENSES[g.gen_range(0..4)];
            let cur = run.seen(l).max(0);
            let v = match g.gen_range(0..10) {
                0 => NOVAL,
                1 if l == "obj" => GONE,
                2..=6 => near(g, cur, 3, vmax),
                _ => g.gen_range(0..=vmax),
            };
            run.call(act("set", l, NOVAL, NOVAL, "-", v, NOVAL, NOVAL));
        }
        22..=37 => {
            // value near a multiple of n, then less-than-n and every-n on it
            let l = ["iter", "eval", "fval"][g.gen_range(0..3)];
            let n = pick(g, big, nmax);
            let v = (n * g.gen_range(0..3) + g.gen_range(-1..=1)).clamp(0, vmax);
            run.call(act("set", l, NOVAL, NOVAL, "-", v, NOVAL, NOVAL));
            run.call(act("lt", l, n, NOVAL, "-", NOVAL, NOVAL, NOVAL));
            if l != "fval" && n > 0 {
                run.call(act("every", l, n, NOVAL, "-", NOVAL, NOVAL, NOVAL));
            }
        }
        38..=45 => {
            let l = ["iter", "eval", "fval"][g.gen_range(0..3)];
            run.call(act("lt", l, pick(g, big, nmax), NOVAL, "-", NOVAL, NOVAL, NOVAL));
        }
        46..=50 => {
            let l = ["iter", "eval"][g.gen_range(0..2)];
            run.call(act("every", l, pick(g, big, nmax).max(1), NOVAL, "-", NOVAL, NOVAL, NOVAL));
        }
        51..=70 => {
            let l = LENSES[g.gen_range(0..4)];
            let d = if l == "fval" || g.gen_bool(0.4) { NOVAL } else { g.gen_range(0..=4) };
            if g.gen_bool(0.6) {
                let v = near(g, run.seen(l).max(0), 4, vmax);
                run.call(act("set", l, NOVAL, NOVAL, "-", v, NOVAL, NOVAL));
            }
            run.call(act("co", l, NOVAL, d, "-", NOVAL, NOVAL, NOVAL));
        }
        71..=72 => {
            let l = LENSES[g.gen_range(0..4)];
            run.call(act("co_init", l, NOVAL, NOVAL, "-", NOVAL, NOVAL, NOVAL));
        }
        73..=74 => {
            let l = ["iter", "eval", "fval"][g.gen_range(0..3)];
            run.call(act("lt_init", l, NOVAL, NOVAL, "-", NOVAL, NOVAL, NOVAL));
        }
        75..=79 => {
            // threshold opt + eps straddling the current best value
            let best = run.seen("obj").max(0);
            let eps = g.gen_range(-1..=3);
            let opt = (best - eps.max(0) + g.gen_range(-1..=1)).clamp(0, best);   // optimum <= best
            run.call(act("optimum", "obj", eps, NOVAL, "-", NOVAL, opt, NOVAL));
        }
        80..=85 => {
            let eps = g.gen_range(-1..=3);
            let opt = g.gen_range(0..=vmax);
            let f = ["some", "some", "some", "none", "absent"][g.gen_range(0..5)];
            let z = if g.gen_bool(0.6) { g.gen_range(1..1_000_000) } else { 0 };
            let best = (opt + eps.max(0) + g.gen_range(-2..=2)).max(opt);   // optimum <= best
            run.call(act("optimum_at", "-", eps, NOVAL, f, best, opt, z));
        }
        86..=91 => {
            let mut budget = 12;
            let fm = random_formula(g, 5, &mut budget);
            let mut a = act("logic", "-", NOVAL, NOVAL, "-", NOVAL, NOVAL, NOVAL);
            a["fm"] = fm;
            run.call(a);
        }
        92..=96 => {
            let n = if big { g.gen_range(0..=60) } else { g.gen_range(0..=nmax) };
            let f = if g.gen_bool(0.6) { "init" } else { "exec" };
            if f == "exec" && g.gen_bool(0.7) {
                let v = near(g, n, 4, vmax);
                run.call(act("set", "iter", NOVAL, NOVAL, "-", v, NOVAL, NOVAL));
            }
            run.call(act("loop", "iter", n, NOVAL, f, NOVAL, NOVAL, NOVAL));
        }
        _ => {
            let pt = [0, 10][g.gen_range(0..2)];
            run.call(act("rc", "-", pt, NOVAL, "-", NOVAL, NOVAL, NOVAL));
        }
    }
}

/// Series of random-chance evaluations per probability, each closed by the frequency check.
fn freq_run(run: &mut Run, trials: u64) {
    for pt in [0, 1, 5, 9, 10] {
        let reps = if pt == 0 || pt == 10 { trials / 10 } else { trials };
        for _ in 0..reps {
            run.call(act("rc", "-", pt, NOVAL, "-", NOVAL, NOVAL, NOVAL));
        }
        run.call(act("rc_end", "-", pt, NOVAL, "-", NOVAL, NOVAL, NOVAL));
    }
}

/// Systematic grid of (n, value) pairs for less-than-n / every-n on the u32 and f64 lenses.
fn grid_run(run: &mut Run, ns: &[i64]) {
    for &n in ns {
        let mut vs = vec![0, 1, n - 1, n, n + 1, 2 * n - 1, 2 * n, 2 * n + 1, 3 * n, n / 2, n / 3];
        vs.retain(|v| *v >= 0);
        vs.sort();
        vs.dedup();
        for (j, v) in vs.into_iter().enumerate() {
            let l = ["iter", "eval", "fval"][(j + n as usize) % 3];
            run.call(act("set", l, NOVAL, NOVAL, "-", v, NOVAL, NOVAL));
            run.call(act("lt", l, n, NOVAL, "-", NOVAL, NOVAL, NOVAL));
            if l != "fval" && n > 0 {
                run.call(act("every", l, n, NOVAL, "-", NOVAL, NOVAL, NOVAL));
            }
        }
        if n <= 300 {
            run.call(act("loop", "iter", n, NOVAL, "init", NOVAL, NOVAL, NOVAL));
        }
    }
}

/// Systematic signed grid for less-than-n on the signed lenses: every (bound, value) pair over
/// negative / zero / positive, integral / fractional numbers (in units of the lens: halves for
/// "sval"), both zeros as bound and as value; then loops raising the value by d towards every bound
/// from below, from the bound itself and from above.
fn signed_grid(run: &mut Run) {
    let ks: [i64; 13] = [-20, -7, -6, -5, -2, -1, 0, 1, 2, 5, 6, 7, 20];
    for l in ["sval", "ival"] {
        let mut pts: Vec<(i64, &str)> = ks.iter().map(|k| (SOFF + k, "-")).collect();
        if l == "sval" {
            pts.push((SOFF, "nz"));
        }
        for &(n, fnn) in &pts {
            for &(v, fv) in &pts {
                run.call(act("set", l, NOVAL, NOVAL, fv, v, NOVAL, NOVAL));
                run.call(act("lt", l, n, NOVAL, fnn, NOVAL, NOVAL, NOVAL));
            }
        }
        for &(n, fnn) in &pts {
            for d in 1..=3 {
                for v0 in [n - 14, n - 7 * d, n - 3, n - 1, n, n + 2] {
                    run.call(act("set", l, NOVAL, NOVAL, "-", v0, NOVAL, NOVAL));
                    run.call(act("sloop", l, n, d, fnn, NOVAL, NOVAL, NOVAL));
                }
            }
        }
        // nothing to read: the loop fails at its first test
        run.call(act("set", l, NOVAL, NOVAL, "-", NOVAL, NOVAL, NOVAL));
        run.call(act("sloop", l, SOFF - 3, 1, "-", NOVAL, NOVAL, NOVAL));
    }
}

/// Systematic nested loops: an outer loop over n whose body holds a scoped inner loop over m
/// (probes before, inside and after), three loops deep, two scoped loops side by side, and the
/// shape of the iterated-local-search template (loop { scope { loop { scope { loop } } } }).
fn nest_grid(run: &mut Run, ns: &[i64]) {
    let tick = || pnode("tick", 0, vec![]);
    for &n in ns {
        for &m in ns {
            let inner = pnode("scope", 0, vec![pnode("loop", m, vec![tick()])]);
            run.call(nest_act(vec![pnode("loop", n, vec![tick(), inner.clone(), tick()])]));
            run.call(nest_act(vec![tick(), pnode("loop", n, vec![inner.clone(), inner.clone()]), tick()]));
            let deep = pnode("scope", 0, vec![pnode("loop", m, vec![tick(), pnode("scope", 0, vec![pnode("loop", n, vec![tick()])])])]);
            run.call(nest_act(vec![pnode("loop", n, vec![deep, tick()])]));
            // a scope without a loop of its own sees the loop around it
            run.call(nest_act(vec![pnode("loop", n, vec![pnode("scope", 0, vec![tick(), pnode("scope", 0, vec![pnode("loop", m, vec![])]), tick()])])]));
        }
    }
}

fn selftest() -> usize {
    fn gcd(a: i64, b: i64) -> i64 {
        if b == 0 { a } else { gcd(b, a % b) }
    }
    let mut bad = 0;
    let mut check = |v: i64, n: i64| {
        let g = gcd(v, n).max(1);
        if frac(v as f64 / n as f64) != (v / g, n / g) {
            bad += 1;
        }
    };
    for n in 1..=400 {
        for v in 0..=900 {
            check(v, n);
        }
    }
    let mut g = rng(1, 1);
    for _ in 0..200_000 {
        check(g.gen_range(0..40_000), g.gen_range(1..=10_000));
    }
    assert_eq!(frac(0.0 / 0.0), (0, 0));
    assert_eq!(frac(3.0 / 0.0), (1, 0));
    assert_eq!(frac(-3.0 / 0.0), (-1, 0));
    assert_eq!(frac(3.0 / -0.0), (-1, 0));
    assert_eq!(frac(-0.0 / 3.0), (0, 1));
    assert_eq!(frac(-10.0 / -3.0), (10, 3));
    assert_eq!(frac(-3.5 / 3.0), (-7, 6));
    assert_eq!(frac(2.5 / -10.0), (-1, 4));
    assert_eq!(sval_of(SOFF - 7, false), -3.5);
    assert!(sval_of(SOFF, true).is_sign_negative() && !sval_of(SOFF, false).is_sign_negative());
    assert_eq!(step(step(1.5, 3), -3), 1.5);
    assert!(step(1.5, 1) > 1.5 && step(-1.5, 1) > -1.5 && step(0.0, -1) < 0.0);
    assert_eq!(bad, 0, "fraction projection is not exact");
    1
}

pub fn main(args: &Args) -> usize {
    if args.mode == "selftest" {
        return selftest();
    }
    let mut out = Out::create(&args.str("out"));
    let seed = args.seed();
    match args.mode.as_str() {
        // scenarios exported from TLC: one json object per line {"run": k, "acts": [...]}
        "replay" => {
            for sc in read_ndjson(&args.str("in")) {
                let k = sc["run"].as_u64().unwrap();
                let s = sc.get("seed").and_then(Value::as_u64).unwrap_or(seed.wrapping_mul(1_000_003).wrapping_add(k));
                let mut run = Run::start(&mut out, k, s);
                for a in sc["acts"].as_array().unwrap() {
                    run.call(a.clone());
                }
            }
        }
        "random" => {
            let runs = args.num("n", 12);
            let len = args.num("len", 600);
            let freq = args.num("freq", 1);
            let trials = args.num("trials", 4000);
            for k in 0..runs {
                let mut g = rng(seed, k);
                let mut run = Run::start(&mut out, k, seed.wrapping_mul(7919).wrapping_add(k));
                for _ in 0..len {
                    random_step(&mut run, &mut g, k % 2 == 1);
                }
            }
            for k in 0..freq {
                let mut run = Run::start(&mut out, runs + k, seed.wrapping_mul(104_729).wrapping_add(k));
                freq_run(&mut run, trials);
            }
            let mut run = Run::start(&mut out, runs + freq, seed);
            grid_run(&mut run, &[0, 1, 2, 3, 4, 5, 7, 10, 16, 100, 257, 1000, 4097, 9999, 10_000]);
            nest_grid(&mut run, &[0, 1, 2, 3, 5]);
            let mut run = Run::start(&mut out, runs + freq + 1, seed);
            signed_grid(&mut run);
        }
        other => panic!("unknown mode {other}"),
    }
    out.finish()
}
