//! Driver for spec modules `Run` / `Wiring`: runs the 21 shipped heuristic templates with the step
//! observer installed (cfg(mahf_verif) hook in `Block::execute`) and records, after every component
//! of every block, the projected state: stack height, population sizes, per-individual
//! (tag, rank, fresh), evaluation counter vs. real objective calls, best-so-far, pass boundaries.
use std::{
    collections::{BTreeSet, HashMap},
    sync::{Arc, Mutex},
};

use mahf::{
    components::archive::ElitistArchive,
    conditions::LessThanN,
    heuristics::*,
    problems::{LimitedVectorProblem, Sequential, SingleObjectiveProblem, TravellingSalespersonProblem, VectorProblem},
    state::common::{Evaluations, Iterations},
    verif::{Step, StepObserver},
    Component, Configuration, ExecResult, Individual, Random, State,
};
use serde_json::{json, Value};

use crate::{
    named::to_named,
    runproblems::*,
    util::{caught, read_ndjson, Args, Out, NOVAL},
};

pub const INF: i64 = 1_000_000;
pub const NOOBJ: i64 = 0;

/// Raw individual as seen by the observer (floats kept as bits until ranks are assigned).
#[derive(Clone)]
pub struct RawInd {
    pub sol: String,
    pub obj: Option<u64>,
    pub fresh: bool,
}

pub struct RawStep {
    pub ev: &'static str, // "enter" | "exit" | "step"
    pub role: String,     // for enter/exit: root | block | loop_body | branch_body | scope_body
    pub name: String,     // for step: component struct name ("Block" for arrays)
    pub comp: Value,      // named serialisation of the component (leaves only)
    pub depth: usize,     // nesting depth of blocks
    pub pops: Vec<Vec<RawInd>>,
    pub evals: i64,
    pub iters: i64,
    pub calls: u64,
    pub nvalues: usize, // number of objective values recorded so far (index into stats.values)
    pub best: Option<RawInd>,
    pub others: Vec<RawInd>, // memory states holding individuals (archive, swarm memories, ...)
    pub scope_depth: usize,
    pub extra: Value,
}

pub struct Recorder {
    pub steps: Vec<RawStep>,
    pub par_evals: Vec<ParEvalRaw>,
    rng_before: u64,
    /// one frame per block being executed: (role of the block, kind of the child it is executing)
    frames: Vec<(String, Option<String>)>,
}

fn comp_name(v: &Value) -> String {
    match v {
        Value::Array(_) => "Block".to_string(),
        Value::Object(m) => m.get("$").and_then(|x| x.as_str()).unwrap_or("?").to_string(),
        _ => "?".to_string(),
    }
}

fn raw_ind<P: Instrumented>(problem: &P, i: &Individual<P>) -> RawInd {
    let obj = i.get_objective().map(|o| o.value().to_bits());
    let fresh = match obj {
        None => true,
        Some(b) => b == problem.pure(i.solution()).to_bits(),
    };
    RawInd { sol: P::show(i.solution()), obj, fresh }
}

pub type Extra<P> = Box<dyn Fn(&P, &State<P>, &str) -> (Vec<RawInd>, Value) + Send>;

fn snapshot<P: Instrumented + SingleObjectiveProblem>(
    problem: &P,
    state: &State<P>,
    ev: &'static str,
    role: String,
    comp: Value,
    depth: usize,
    extra: &Extra<P>,
) -> RawStep {
    let name = if ev == "step" { comp_name(&comp) } else { String::new() };
    let pops: Vec<Vec<RawInd>> = match state.try_borrow::<mahf::state::common::Populations<P>>() {
        Ok(p) => (0..p.len()).rev().map(|d| p.peek(d).iter().map(|i| raw_ind(problem, i)).collect()).collect(),
        Err(_) => vec![],
    };
    let evals = state.try_get_value::<Evaluations>().map(|v| v as i64).unwrap_or(NOVAL * 0 - 1);
    let iters = state.try_get_value::<Iterations>().map(|v| v as i64).unwrap_or(-1);
    let best = state.best_individual().map(|b| raw_ind(problem, &b));
    let mut others: Vec<RawInd> = Vec::new();
    if let Ok(a) = state.try_borrow::<ElitistArchive<P>>() {
        others.extend(a.elitists().iter().map(|i| raw_ind(problem, i)));
    }
    let (more, extra_v) = extra(problem, state, &name);
    others.extend(more);
    let mut scope_depth = 1;
    let mut r: &mahf::StateRegistry = state;
    while let Some(p) = r.parent() {
        scope_depth += 1;
        r = p;
    }
    RawStep {
        ev,
        role,
        name,
        comp,
        depth,
        pops,
        evals,
        iters,
        calls: problem.stats().calls(),
        nvalues: problem.stats().values.lock().unwrap().len(),
        best,
        others,
        scope_depth,
        extra: extra_v,
    }
}

/// How a run is executed (C08 varies these; everything else uses the default).
#[derive(Clone, Default)]
pub struct RunOpts {
    pub parallel: bool,
    /// rayon pool size for the whole run (0 = global pool)
    pub threads: usize,
    /// scripted delay of objective calls in microseconds (perturbs completion order)
    pub jitter: u64,
    /// supply a draw-counting generator (same stream as the default one) and a log configuration
    pub counting_rng: bool,
    /// evaluators registered under the default identifier AND under A (both real)
    pub eval_both: bool,
    pub log_config: bool,
    /// > 0: a log rule whose trigger is `LessThanN::iterations(log_lt)` ("log only the first passes")
    pub log_lt: u32,
    /// record the objective-side event log of every evaluation step
    pub par_log: bool,
    /// register the real evaluator under identifier A and a poisoned one under the default identifier
    pub eval_id_a: bool,
    /// how the set-up supplies the generator: 0 `insert`, 1 `entry().or_insert_with(..)`, 2 `entry().or_insert(..)`,
    /// 3 `if !contains { insert }` -- every one of them is "a generator supplied by the user"
    pub rng_supply: u8,
}

/// An evaluator nobody should reach: it attaches a wrong objective value without calling the objective function.
pub struct Poison<P>(pub std::marker::PhantomData<fn() -> P>);
impl<P: SingleObjectiveProblem> mahf::problems::Evaluate for Poison<P> {
    type Problem = P;
    fn evaluate(&mut self, _: &P, _: &mut State<P>, individuals: &mut [Individual<P>]) {
        for i in individuals {
            i.set_objective(12345.678.try_into().unwrap());
        }
    }
}

pub static RNG_DRAWS: std::sync::atomic::AtomicU64 = std::sync::atomic::AtomicU64::new(0);

/// ChaCha12 (mahf's default generator) that counts its draws.
pub struct CountingRng(rand_chacha::ChaCha12Rng);
impl rand::RngCore for CountingRng {
    fn next_u32(&mut self) -> u32 {
        RNG_DRAWS.fetch_add(1, std::sync::atomic::Ordering::SeqCst);
        self.0.next_u32()
    }
    fn next_u64(&mut self) -> u64 {
        RNG_DRAWS.fetch_add(1, std::sync::atomic::Ordering::SeqCst);
        self.0.next_u64()
    }
    fn fill_bytes(&mut self, dest: &mut [u8]) {
        RNG_DRAWS.fetch_add(1, std::sync::atomic::Ordering::SeqCst);
        self.0.fill_bytes(dest)
    }
    fn try_fill_bytes(&mut self, dest: &mut [u8]) -> Result<(), rand::Error> {
        RNG_DRAWS.fetch_add(1, std::sync::atomic::Ordering::SeqCst);
        self.0.try_fill_bytes(dest)
    }
}
impl rand::SeedableRng for CountingRng {
    type Seed = <rand_chacha::ChaCha12Rng as rand::SeedableRng>::Seed;
    fn from_seed(seed: Self::Seed) -> Self {
        CountingRng(rand_chacha::ChaCha12Rng::from_seed(seed))
    }
}

/// One evaluation step as the instrumented objective function saw it.
pub struct ParEvalRaw {
    pub sols: Vec<String>,
    pub want: Vec<u64>,
    pub objs: Vec<Option<u64>>,
    pub events: Vec<(u64, u8, String)>,
    pub rng_delta: u64,
}

pub struct RunOutcome {
    pub par_evals: Vec<ParEvalRaw>,
    pub final_log: Value,
    pub seed_kept: bool,
    pub steps: Vec<RawStep>,
    pub result: String,
    pub error: String,
    pub final_evals: i64,
    pub final_iters: i64,
    pub tree: Value,
}

/// Runs `config` on `problem` with seed `seed`, observer installed.
pub fn observe<P>(config: &Configuration<P>, problem: &P, seed: u64, extra: Extra<P>, parallel: bool) -> RunOutcome
where
    P: Instrumented + SingleObjectiveProblem + Sync,
{
    observe_with(config, problem, seed, extra, &RunOpts { parallel, ..Default::default() })
}

pub fn observe_with<P>(config: &Configuration<P>, problem: &P, seed: u64, extra: Extra<P>, opts: &RunOpts) -> RunOutcome
where
    P: Instrumented + SingleObjectiveProblem + Sync,
{
    use std::sync::atomic::Ordering;
    let parallel = opts.parallel;
    let par_log = opts.par_log;
    problem.stats().jitter.store(opts.jitter, Ordering::SeqCst);
    problem.stats().log_events.store(par_log, Ordering::SeqCst);
    let rec = Arc::new(Mutex::new(Recorder { steps: Vec::new(), frames: Vec::new(), par_evals: Vec::new(), rng_before: 0 }));
    let rec2 = rec.clone();
    let tree = to_named(config.heuristic()).unwrap_or(json!("unserialisable"));
    let observer: mahf::verif::StepFn<P> = Box::new(move |step, problem, state| {
        let mut r = rec2.lock().unwrap();
        match step {
            Step::BlockEnter { .. } => {
                // the block being entered belongs to the child the enclosing block is executing
                let role = match r.frames.last().and_then(|f| f.1.clone()) {
                    None => "root".to_string(),
                    Some(kind) => match kind.as_str() {
                        "Block" => "block".to_string(),
                        "Loop" => "loop_body".to_string(),
                        "Branch" => "branch_body".to_string(),
                        "Scope" => "scope_body".to_string(),
                        other => format!("in_{other}"),
                    },
                };
                let depth = r.frames.len();
                r.frames.push((role.clone(), None));
                let s = snapshot(problem, state, "enter", role, Value::Null, depth, &extra);
                r.steps.push(s);
            }
            Step::Before { component, .. } => {
                let kind = comp_name(&to_named(*component).unwrap_or(json!({"$": "unserialisable"})));
                if par_log && kind == "PopulationEvaluator" {
                    problem.stats().events.lock().unwrap().clear();
                    r.rng_before = RNG_DRAWS.load(Ordering::SeqCst);
                }
                if let Some(f) = r.frames.last_mut() {
                    f.1 = Some(kind);
                }
            }
            Step::After { component, .. } => {
                if let Some(f) = r.frames.last_mut() {
                    f.1 = None;
                }
                let v = to_named(*component).unwrap_or(json!({"$": "unserialisable"}));
                let depth = r.frames.len();
                if par_log && comp_name(&v) == "PopulationEvaluator" {
                    let events = std::mem::take(&mut *problem.stats().events.lock().unwrap());
                    if let Ok(pops) = state.try_borrow::<mahf::state::common::Populations<P>>() {
                        if let Some(top) = pops.get_current() {
                            let pe = ParEvalRaw {
                                sols: top.iter().map(|i| P::show(i.solution())).collect(),
                                want: top.iter().map(|i| problem.pure(i.solution()).to_bits()).collect(),
                                objs: top.iter().map(|i| i.get_objective().map(|o| o.value().to_bits())).collect(),
                                events,
                                rng_delta: RNG_DRAWS.load(Ordering::SeqCst) - r.rng_before,
                            };
                            r.par_evals.push(pe);
                        }
                    }
                }
                let s = snapshot(problem, state, "step", String::new(), v, depth, &extra);
                r.steps.push(s);
            }
            Step::BlockExit { .. } => {
                let role = r.frames.pop().map(|f| f.0).unwrap_or_default();
                let depth = r.frames.len();
                let s = snapshot(problem, state, "exit", role, Value::Null, depth, &extra);
                r.steps.push(s);
            }
        }
    });
    let counting = opts.counting_rng;
    let log_config = opts.log_config;
    let log_lt = opts.log_lt;
    let eval_id_a = opts.eval_id_a;
    let eval_both = opts.eval_both;
    let rng_supply = opts.rng_supply;
    let body = || {
        config.optimize_with(problem, |state| {
            let generator = || if counting { Random::with_rng::<CountingRng>(seed) } else { Random::new(seed) };
            match rng_supply {
                0 => {
                    state.insert(generator());
                }
                1 => {
                    state.entry::<Random>().or_insert_with(generator);
                }
                2 => {
                    state.entry::<Random>().or_insert(generator());
                }
                _ => {
                    if !state.contains::<Random>() {
                        state.insert(generator());
                    }
                }
            }
            if eval_both {
                state.insert_evaluator_as::<mahf::identifier::A>(Sequential::<P>::new());
                state.insert_evaluator(Sequential::<P>::new());
            } else if eval_id_a {
                // the configuration asks for identifier A everywhere; whoever uses the default evaluator gets poison
                state.insert_evaluator_as::<mahf::identifier::A>(Sequential::<P>::new());
                state.insert_evaluator(Poison::<P>(std::marker::PhantomData));
            } else if parallel {
                state.insert_evaluator(mahf::problems::Parallel::<P>::new());
            } else {
                state.insert_evaluator(Sequential::<P>::new());
            }
            if log_config {
                state.configure_log(|c| {
                    c.with_common(mahf::conditions::EveryN::iterations(2))
                        .with(mahf::conditions::EveryN::iterations(1), mahf::lens::common::BestObjectiveValueLens::entry());
                    Ok(())
                })?;
            }
            if log_lt > 0 {
                state.configure_log(|c| {
                    c.with(LessThanN::iterations(log_lt), mahf::lens::common::BestObjectiveValueLens::entry());
                    Ok(())
                })?;
            }
            state.insert(StepObserver::<P>(observer));
            Ok(())
        })
    };
    let result = if opts.threads > 0 {
        let pool = rayon::ThreadPoolBuilder::new().num_threads(opts.threads).build().expect("rayon pool");
        caught(|| pool.install(body))
    } else {
        caught(body)
    };
    problem.stats().jitter.store(0, Ordering::SeqCst);
    let mut final_log = json!([]);
    let mut seed_kept = false;
    let (res, err, fe, fi) = match result {
        Err(p) => ("panic".to_string(), p, -1, -1),
        Ok(Err(e)) => ("err".to_string(), format!("{e:#}").lines().next().unwrap_or("").to_string(), -1, -1),
        Ok(Ok(state)) => {
            final_log = serde_json::to_value(&*state.log()).unwrap_or(json!("unserialisable"));
            let rc = state.borrow::<Random>();
            seed_kept = rc.config().seed == seed && (!counting || rc.config().name.contains("CountingRng"));
            drop(rc);
            (
                "ok".to_string(),
                String::new(),
                state.try_get_value::<Evaluations>().map(|v| v as i64).unwrap_or(-1),
                state.try_get_value::<Iterations>().map(|v| v as i64).unwrap_or(-1),
            )
        }
    };
    let mut r = rec.lock().unwrap();
    RunOutcome {
        steps: std::mem::take(&mut r.steps),
        par_evals: std::mem::take(&mut r.par_evals),
        final_log,
        seed_kept,
        result: res,
        error: err,
        final_evals: fe,
        final_iters: fi,
        tree,
    }
}

// ---------------------------------------------------------------------------------------------
// projection of a recorded run to trace records (tags, ranks)

pub struct Projector {
    tags: HashMap<String, i64>,
    ranks: HashMap<u64, i64>,
}

impl Projector {
    pub fn new(out: &RunOutcome, all_values: &[u64]) -> Self {
        let mut vals: BTreeSet<u64> = BTreeSet::new();
        // order-preserving key for non-negative-or-negative floats: use total order on f64
        let mut fl: Vec<f64> = all_values.iter().map(|b| f64::from_bits(*b)).collect();
        for s in &out.steps {
            for i in s.pops.iter().flatten().chain(s.best.iter()).chain(s.others.iter()) {
                if let Some(b) = i.obj {
                    fl.push(f64::from_bits(b));
                }
            }
            let mut acc = Vec::new();
            collect_objs(&s.extra, &mut acc);
            fl.extend(acc.into_iter().map(f64::from_bits));
        }
        fl.sort_by(|a, b| a.total_cmp(b));
        fl.dedup_by(|a, b| a.to_bits() == b.to_bits());
        let mut ranks = HashMap::new();
        let mut next = 1;
        for v in fl {
            if v == f64::INFINITY {
                ranks.insert(v.to_bits(), INF);
            } else {
                // -0.0 and 0.0 compare equal as objectives: give them the same rank
                if v == 0.0 {
                    if let Some(r) = ranks.get(&(-v).to_bits()).copied() {
                        ranks.insert(v.to_bits(), r);
                        continue;
                    }
                }
                ranks.insert(v.to_bits(), next);
                next += 1;
            }
            vals.insert(v.to_bits());
        }
        Self { tags: HashMap::new(), ranks }
    }
    pub fn tag(&mut self, sol: &str) -> i64 {
        let n = self.tags.len() as i64 + 1;
        *self.tags.entry(sol.to_string()).or_insert(n)
    }
    pub fn rank(&self, obj: Option<u64>) -> i64 {
        match obj {
            None => NOOBJ,
            Some(b) => *self.ranks.get(&b).unwrap_or(&-7),
        }
    }
}

fn min_rank(p: &Projector, inds: &[RawInd]) -> i64 {
    inds.iter().filter_map(|i| i.obj.map(|b| p.rank(Some(b)))).min().unwrap_or(NOOBJ)
}

/// replaces every {"$obj": "<bits>"} / {"$obj": "none"} by the rank of that objective value and every
/// {"$tag": "<solution>"} by the tag of that solution
fn subst_ranks(p: &mut Projector, v: &Value) -> Value {
    match v {
        Value::Object(m) if m.len() == 1 && m.contains_key("$tag") => json!(p.tag(m["$tag"].as_str().unwrap_or(""))),
        Value::Object(m) if m.len() == 1 && m.contains_key("$obj") => match m["$obj"].as_str() {
            Some("none") | None => json!(NOOBJ),
            Some(bits) => json!(p.rank(Some(bits.parse::<u64>().unwrap()))),
        },
        Value::Object(m) => Value::Object(m.iter().map(|(k, x)| (k.clone(), subst_ranks(p, x))).collect()),
        Value::Array(a) => Value::Array(a.iter().map(|x| subst_ranks(p, x)).collect()),
        other => other.clone(),
    }
}

fn collect_objs(v: &Value, acc: &mut Vec<u64>) {
    match v {
        Value::Object(m) if m.len() == 1 && m.contains_key("$obj") => {
            if let Some(b) = m["$obj"].as_str().and_then(|s| s.parse::<u64>().ok()) {
                acc.push(b);
            }
        }
        Value::Object(m) => m.values().for_each(|x| collect_objs(x, acc)),
        Value::Array(a) => a.iter().for_each(|x| collect_objs(x, acc)),
        _ => {}
    }
}

pub fn emit_run(out: &mut Out, run: u64, header: &Value, o: &RunOutcome, values: &[u64]) {
    let mut p = Projector::new(o, values);
    let mut h = header.clone();
    h["run"] = json!(run);
    h["ev"] = json!("start");
    out.emit(&h);
    let mut minseen_upto = 0usize;
    let mut minseen = NOOBJ;
    for (i, s) in o.steps.iter().enumerate() {
        // minimum rank returned by the objective function so far -- and since the previous record (smin)
        let mut smin = NOOBJ;
        while minseen_upto < s.nvalues {
            let r = p.rank(Some(values[minseen_upto]));
            if minseen == NOOBJ || r < minseen {
                minseen = r;
            }
            if smin == NOOBJ || r < smin {
                smin = r;
            }
            minseen_upto += 1;
        }
        let sizes: Vec<usize> = s.pops.iter().map(|x| x.len()).collect();
        let top: &[RawInd] = s.pops.last().map(|x| x.as_slice()).unwrap_or(&[]);
        let stale = s.pops.iter().flatten().chain(s.best.iter()).chain(s.others.iter()).filter(|i| !i.fresh).count();
        let top_tags: Vec<i64> = top.iter().map(|i| p.tag(&i.sol)).collect();
        let top_ranks: Vec<i64> = top.iter().map(|i| p.rank(i.obj)).collect();
        // solutions passed to the objective function during this step (sorted tags) — filled by evaluators only
        let rec = json!({
            "run": run, "t": header["template"], "i": i, "ev": s.ev, "role": s.role, "name": s.name, "depth": s.depth,
            "h": s.pops.len(), "sizes": sizes, "top": top_tags, "topr": top_ranks,
            "uneval": top.iter().filter(|i| i.obj.is_none()).count(),
            "topmin": min_rank(&p, top),
            "stale": stale,
            "evals": s.evals, "iters": s.iters, "calls": s.calls,
            "best": s.best.as_ref().map(|b| p.rank(b.obj)).unwrap_or(NOOBJ),
            "minseen": minseen,
            "smin": smin,
            "sd": s.scope_depth,
            "xk": header["xk"],
            "x": subst_ranks(&mut p, &s.extra),
        });
        out.emit(&rec);
    }
    while minseen_upto < values.len() {
        let r = p.rank(Some(values[minseen_upto]));
        if minseen == NOOBJ || r < minseen {
            minseen = r;
        }
        minseen_upto += 1;
    }
    out.emit(&json!({"run": run, "t": header["template"], "ev": "end", "result": o.result, "error": o.error, "evals": o.final_evals,
                     "iters": o.final_iters, "calls": values.len(), "minseen": minseen}));
}

// ---------------------------------------------------------------------------------------------
// template construction from a run specification

fn f(p: &Value, k: &str) -> f64 {
    p[k].as_f64().unwrap_or_else(|| panic!("missing float parameter {k}"))
}
fn u(p: &Value, k: &str) -> u32 {
    p[k].as_u64().unwrap_or_else(|| panic!("missing integer parameter {k}")) as u32
}

/// "comp:" pseudo-templates: a single variation component between a selection and an evaluation, in a loop that
/// keeps the (evaluated) population size constant — every shipped operator is observed under the step observer
/// on evaluated parents, with odd / even numbers of selected parents (C05: stale objective values).
fn component_loop<P: SingleObjectiveProblem>(
    init: Box<dyn Component<P>>,
    component: Box<dyn Component<P>>,
    p: &Value,
    n: u32,
) -> ExecResult<Configuration<P>> {
    use mahf::components::{replacement, selection};
    let popsize = u(p, "popsize");
    let select = u(p, "select");
    let selection = if select == 0 { selection::All::new() } else { selection::FullyRandom::new(select) };
    Ok(Configuration::builder()
        .do_(init)
        .evaluate()
        .update_best_individual()
        .while_(LessThanN::iterations(n), |b| {
            b.do_(selection).do_(component).evaluate().update_best_individual().do_(replacement::MuPlusLambda::new(popsize))
        })
        .build())
}

/// Adds log rules for the four normalised diversity values (every iteration) to the run's log configuration.
#[derive(Clone, serde::Serialize)]
pub struct LogDiversity;
impl<P> Component<P> for LogDiversity
where
    P: SingleObjectiveProblem + LimitedVectorProblem<Element = f64>,
{
    fn init(&self, _problem: &P, state: &mut State<P>) -> ExecResult<()> {
        use mahf::components::diversity as dv;
        state.configure_log(|c| {
            c.with(mahf::conditions::EveryN::iterations(1), dv::NormalizedDiversityLens::<dv::DimensionWiseDiversity>::entry())
                .with(mahf::conditions::EveryN::iterations(1), dv::NormalizedDiversityLens::<dv::PairwiseDistanceDiversity>::entry())
                .with(mahf::conditions::EveryN::iterations(1), dv::NormalizedDiversityLens::<dv::TrueDiversity>::entry())
                .with(mahf::conditions::EveryN::iterations(1), dv::NormalizedDiversityLens::<dv::DistanceToAveragePointDiversity>::entry());
            Ok(())
        })
    }
    fn execute(&self, _problem: &P, _state: &mut State<P>) -> ExecResult<()> {
        Ok(())
    }
}

/// Pushes `n` random points that carry a placeholder objective value (+inf) -- what a user's warm start built with
/// `Individual::new(solution, objective)` looks like before the first evaluation.
#[derive(Clone, serde::Serialize)]
pub struct WarmStart {
    pub n: u32,
}
impl<P> Component<P> for WarmStart
where
    P: SingleObjectiveProblem + LimitedVectorProblem<Element = f64>,
{
    fn execute(&self, problem: &P, state: &mut State<P>) -> ExecResult<()> {
        use rand::Rng;
        let mut pop = Vec::new();
        for _ in 0..self.n {
            let sol: Vec<f64> = problem.domain().iter().map(|r| state.random_mut().gen_range(r.clone())).collect();
            pop.push(mahf::Individual::<P>::new(sol, f64::INFINITY.try_into().unwrap()));
        }
        state.populations_mut().push(pop);
        Ok(())
    }
}

pub fn real_template<P>(name: &str, p: &Value, n: u32) -> ExecResult<Configuration<P>>
where
    P: SingleObjectiveProblem + LimitedVectorProblem<Element = f64>,
{
    use mahf::components::{initialization, mutation, recombination};
    let name = name.strip_suffix("|log4").unwrap_or(name);
    let cond = || LessThanN::iterations(n);
    if name == "real_de|ctb" {
        // C08: DE/current-to-best/2 (no shipped template uses this selection): three partners per base, used by position
        use mahf::components::{boundary, mutation as mu, recombination as rc, selection};
        let ps = u(p, "population_size");
        return Ok(Configuration::builder()
            .do_(initialization::RandomSpread::new(ps))
            .evaluate()
            .update_best_individual()
            .do_(de::de::<P, mahf::identifier::Global>(
                de::Parameters {
                    selection: selection::de::DECurrentToBest::new(2)?,
                    mutation: mu::de::DEMutation::new(2, 0.7)?,
                    crossover: rc::de::DEBinomialCrossover::new(0.5),
                    constraints: boundary::Saturation::new(),
                    replacement: mahf::components::replacement::KeepBetterAtIndex::new(),
                },
                cond(),
            ))
            .build());
    }
    if name == "real_ga|div" || name == "real_ga|warm" {
        // C08: a GA loop that (div) measures and logs all four diversity measures after every evaluation, or
        // (warm) starts from individuals carrying placeholder objective values that the first evaluation has to replace
        use mahf::components::{boundary, diversity, replacement, selection};
        let ps = u(p, "population_size");
        let b = Configuration::builder();
        let b = if name.ends_with("warm") {
            b.do_(Box::new(WarmStart { n: ps }))
        } else {
            b.do_(Box::new(LogDiversity)).do_(initialization::RandomSpread::new(ps))
        };
        return Ok(b
            .evaluate()
            .update_best_individual()
            .while_(cond(), |b| {
                let b = b
                    .do_(selection::Tournament::new(ps, 2))
                    .do_(mutation::NormalMutation::new(0.3, 1.0))
                    .do_(boundary::Saturation::new())
                    .evaluate()
                    .update_best_individual();
                let b = if name.ends_with("div") {
                    b.do_(diversity::DimensionWiseDiversity::new())
                        .do_(diversity::PairwiseDistanceDiversity::new())
                        .do_(diversity::TrueDiversity::new())
                        .do_(diversity::DistanceToAveragePointDiversity::new())
                } else {
                    b
                };
                b.do_(replacement::Generational::new(ps)).do_(mahf::logging::Logger::new())
            })
            .build());
    }
    if name == "cond" {
        // C15: configurations that differ only in the logical structure of their loop condition
        let a = || LessThanN::iterations(3);
        let b = || mahf::conditions::EveryN::iterations(2);
        let c = || LessThanN::evaluations(50);
        let cond: Box<dyn mahf::Condition<P>> = match p["c"].as_str().unwrap() {
            "a" => a(),
            "!a" => !a(),
            "!!a" => !!a(),
            "b" => b(),
            "a&b" => a() & b(),
            "a|b" => a() | b(),
            "b&a" => b() & a(),
            "(a|b)&c" => (a() | b()) & c(),
            "(a&b)&c" => (a() & b()) & c(),
            "a&(b|c)" => a() & (b() | c()),
            "(a&b)|c" => (a() & b()) | c(),
            "!(a&b)" => !(a() & b()),
            "!a&b" => !a() & b(),
            other => panic!("unknown condition form {other}"),
        };
        return Ok(Configuration::builder().while_(cond, |b| b.do_(mahf::logging::Logger::new())).build());
    }
    if name == "ident" {
        // C15: configurations that differ only in an identifier type parameter
        use mahf::identifier as mid;
        let b = Configuration::builder();
        let b = match p["id"].as_str().unwrap() {
            "default" => b.evaluate(),
            "mahf::Global" => b.evaluate_with::<mid::Global>(),
            "mahf::A" => b.evaluate_with::<mid::A>(),
            "mahf::B" => b.evaluate_with::<mid::B>(),
            "user::A" => b.evaluate_with::<crate::userid::A>(),
            "user::nested::A" => b.evaluate_with::<crate::userid::nested::A>(),
            "user::Global" => b.evaluate_with::<crate::userid::Global>(),
            other => panic!("unknown identifier {other}"),
        };
        return Ok(b.build());
    }
    if let Some(c) = name.strip_prefix("comp:") {
        let pc = p["pc"].as_f64().unwrap_or(1.0);
        let rm = p["rm"].as_f64().unwrap_or(1.0);
        let component: Box<dyn Component<P>> = match c {
            "UniformCrossover_single" => recombination::UniformCrossover::new_insert_single(pc),
            "UniformCrossover_both" => recombination::UniformCrossover::new_insert_both(pc),
            "NPointCrossover_single" => recombination::NPointCrossover::new_insert_single(1, pc),
            "NPointCrossover_both" => recombination::NPointCrossover::new_insert_both(1, pc),
            "ArithmeticCrossover_single" => recombination::ArithmeticCrossover::new_insert_single(pc),
            "ArithmeticCrossover_both" => recombination::ArithmeticCrossover::new_insert_both(pc),
            "NormalMutation" => mutation::NormalMutation::new(0.1, rm),
            "UniformMutation" => mutation::UniformMutation::new(0.1, rm),
            "PartialRandomSpread" => mutation::PartialRandomSpread::new(rm),
            // repair AFTER evaluation: leave the domain, evaluate, then repair the evaluated individuals
            "Saturation_after_eval" | "Toroidal_after_eval" | "Mirror_after_eval" | "CompleteOneTailedNormalCorrection_after_eval" => {
                use mahf::components::{boundary, evaluation};
                let repair: Box<dyn Component<P>> = match c {
                    "Saturation_after_eval" => boundary::Saturation::new(),
                    "Toroidal_after_eval" => boundary::Toroidal::new(),
                    "Mirror_after_eval" => boundary::Mirror::new(),
                    _ => boundary::CompleteOneTailedNormalCorrection::new(),
                };
                mahf::components::Block::new([mutation::NormalMutation::new(p["dev"].as_f64().unwrap_or(1.0), rm), evaluation::PopulationEvaluator::new(), repair])
            }
            other => return Err(eyre::eyre!("unknown real component {other}")),
        };
        return component_loop(initialization::RandomSpread::new(u(p, "popsize")), component, p, n);
    }
    match name {
        "real_ga" => ga::real_ga(
            ga::RealProblemParameters { population_size: u(p, "population_size"), tournament_size: u(p, "tournament_size"), pm: f(p, "pm"), deviation: f(p, "deviation"), pc: f(p, "pc") },
            cond(),
        ),
        "real_mu_plus_lambda_es" => es::real_mu_plus_lambda_es::<P, ()>(
            es::RealProblemParameters { population_size: u(p, "population_size"), lambda: u(p, "lambda"), deviation: f(p, "deviation") },
            cond(),
        ),
        "real_de" => de::real_de(de::RealProblemParameters { population_size: u(p, "population_size"), y: u(p, "y"), f: f(p, "f"), pc: f(p, "pc") }, cond()),
        "real_pso|evals" => pso::real_pso(
            pso::RealProblemParameters { num_particles: u(p, "num_particles"), start_weight: f(p, "start_weight"), end_weight: f(p, "end_weight"), c_one: f(p, "c_one"), c_two: f(p, "c_two"), v_max: f(p, "v_max") },
            // the evaluation budget is left during the first two passes only; the run then lasts max(n, 2) passes
            LessThanN::evaluations(2 * u(p, "num_particles") + 1) | LessThanN::iterations(n),
        ),
        // C18: a second swarm under identifier A (built with the `new_with_id` constructors) in a scope, after a first phase
        // with the default identifier; a swarm whose repair step runs a scoped inner loop with its own LessThanN; a swarm
        // started after another phase has filled the best-individual memory from a different population
        // C18: the generic `pso` template with a constant inertia weight (no weight schedule configured)
        "real_pso|const" => {
            use mahf::components::{boundary, swarm::pso as sp};
            let (np, sw) = (u(p, "num_particles"), f(p, "start_weight"));
            let (c1, c2, vm) = (f(p, "c_one"), f(p, "c_two"), f(p, "v_max"));
            let body = pso::pso::<P, mahf::identifier::Global>(
                pso::Parameters {
                    particle_init: sp::ParticleSwarmInit::new(vm)?,
                    particle_update: sp::ParticleVelocitiesUpdate::new(sw, c1, c2, vm)?,
                    constraints: boundary::Saturation::new(),
                    inertia_weight_update: None,
                    state_update: sp::ParticleSwarmUpdate::new(),
                },
                cond(),
            );
            Ok(Configuration::builder().do_(initialization::RandomSpread::new(np)).evaluate().update_best_individual().do_(body).build())
        }
        "real_pso@AG" | "real_pso|scoped" | "real_pso|phase2" => {
            use mahf::components::{boundary, mapping, swarm::pso as sp};
            use mahf::identifier::A;
            use mahf::lens::ValueOf;
            use mahf::state::common::{Iterations, Progress};
            let (np, sw, ew) = (u(p, "num_particles"), f(p, "start_weight"), f(p, "end_weight"));
            let (c1, c2, vm) = (f(p, "c_one"), f(p, "c_two"), f(p, "v_max"));
            let mk = || pso::RealProblemParameters { num_particles: np, start_weight: sw, end_weight: ew, c_one: c1, c_two: c2, v_max: vm };
            match name {
                "real_pso@AG" => {
                    let first = pso::real_pso::<P>(mk(), cond())?.into_inner();
                    let second = pso::pso::<P, A>(
                        pso::Parameters {
                            particle_init: sp::ParticleSwarmInit::<A>::new_with_id(vm)?,
                            particle_update: sp::ParticleVelocitiesUpdate::<A>::new_with_id(sw, c1, c2, vm)?,
                            constraints: boundary::Saturation::new(),
                            inertia_weight_update: Some(mapping::Linear::new(
                                sw,
                                ew,
                                ValueOf::<Progress<ValueOf<Iterations>>>::new(),
                                ValueOf::<sp::InertiaWeight<sp::ParticleVelocitiesUpdate<A>>>::new(),
                            )),
                            state_update: sp::ParticleSwarmUpdate::<A>::new_with_id(),
                        },
                        cond(),
                    );
                    Ok(Configuration::builder()
                        .do_(first)
                        .scope_(|b| b.do_(initialization::RandomSpread::new(np)).evaluate_with::<A>().update_best_individual().do_(second))
                        .build())
                }
                "real_pso|scoped" => {
                    // the repair step is followed by a scoped refinement loop that has its own iteration bound
                    let inner = Configuration::builder()
                        .scope_(|b| b.while_(LessThanN::iterations(3), |b| b.do_(boundary::Saturation::new())))
                        .build_component();
                    let body = pso::pso::<P, mahf::identifier::Global>(
                        pso::Parameters {
                            particle_init: sp::ParticleSwarmInit::new(vm)?,
                            particle_update: sp::ParticleVelocitiesUpdate::new(sw, c1, c2, vm)?,
                            constraints: Configuration::builder().do_(boundary::Saturation::new()).do_(inner).build_component(),
                            inertia_weight_update: Some(mapping::Linear::new(
                                sw,
                                ew,
                                ValueOf::<Progress<ValueOf<Iterations>>>::new(),
                                ValueOf::<sp::InertiaWeight<sp::ParticleVelocitiesUpdate>>::new(),
                            )),
                            state_update: sp::ParticleSwarmUpdate::new(),
                        },
                        cond(),
                    );
                    Ok(Configuration::builder().do_(initialization::RandomSpread::new(np)).evaluate().update_best_individual().do_(body).build())
                }
                _ => {
                    // an earlier phase samples many points and records the best of them; the swarm starts afterwards
                    let swarm = pso::real_pso::<P>(mk(), cond())?.into_inner();
                    Ok(Configuration::builder()
                        .do_(initialization::RandomSpread::new(40))
                        .evaluate()
                        .update_best_individual()
                        .do_(swarm)
                        .build())
                }
            }
        }
        "real_pso" => pso::real_pso(
            pso::RealProblemParameters { num_particles: u(p, "num_particles"), start_weight: f(p, "start_weight"), end_weight: f(p, "end_weight"), c_one: f(p, "c_one"), c_two: f(p, "c_two"), v_max: f(p, "v_max") },
            cond(),
        ),
        "real_sa" => sa::real_sa(sa::RealProblemParameters { t_0: f(p, "t_0"), alpha: f(p, "alpha"), deviation: f(p, "deviation") }, cond()),
        // C17: an SA whose candidates are refined by a short SA of its own before they are judged -- the generic `sa`
        // template used as the `constraints` step of the `sa` template, in a scope of its own (its own temperature,
        // iteration counter and cooling schedule: `inner`)
        "real_sa|nested" => {
            use mahf::{components::{boundary, initialization, mapping, replacement}, identifier::Global, lens::ValueOf};
            let cooling = |alpha: f64| mapping::sa::GeometricCooling::new(alpha, ValueOf::<replacement::sa::Temperature>::new());
            let q = &p["inner"];
            let inner = sa::sa::<P, Global>(
                sa::Parameters {
                    t_0: f(q, "t_0"),
                    generation: mutation::NormalMutation::new_dev(f(q, "deviation")),
                    cooling_schedule: cooling(f(q, "alpha"))?,
                    constraints: boundary::Saturation::new(),
                },
                LessThanN::iterations(u(q, "n")),
            );
            let refine = Configuration::builder().do_(boundary::Saturation::new()).evaluate().scope_(|b| b.do_(inner)).build_component();
            Ok(Configuration::builder()
                .do_(initialization::RandomSpread::new(1))
                .evaluate()
                .update_best_individual()
                .do_(sa::sa::<P, Global>(
                    sa::Parameters {
                        t_0: f(p, "t_0"),
                        generation: mutation::NormalMutation::new_dev(f(p, "deviation")),
                        cooling_schedule: cooling(f(p, "alpha"))?,
                        constraints: refine,
                    },
                    cond(),
                ))
                .build())
        }
        "real_ls" => ls::real_ls(ls::RealProblemParameters { n_neighbors: u(p, "n_neighbors"), deviation: f(p, "deviation") }, cond()),
        "real_ils" => ils::real_ils(
            ils::RealProblemParameters {
                ls_params: ls::RealProblemParameters { n_neighbors: u(p, "n_neighbors"), deviation: f(p, "deviation") },
                ls_condition: LessThanN::iterations(u(p, "ls_iterations")),
            },
            cond(),
        ),
        "real_rs" => rs::real_rs(cond()),
        "real_rw" => rw::real_rw(rw::RealProblemParameters { deviation: f(p, "deviation") }, cond()),
        "real_iwo" => iwo::real_iwo(
            iwo::RealProblemParameters {
                initial_population_size: u(p, "initial_population_size"),
                max_population_size: u(p, "max_population_size"),
                min_number_of_seeds: u(p, "min_number_of_seeds"),
                max_number_of_seeds: u(p, "max_number_of_seeds"),
                initial_deviation: f(p, "initial_deviation"),
                final_deviation: f(p, "final_deviation"),
                modulation_index: u(p, "modulation_index"),
            },
            cond(),
        ),
        // the firefly template instantiated for identifier A (as real_fa does for Global): every evaluation has to go
        // through the evaluator registered under A; the harness registers a *poisoned* evaluator under Global
        "real_fa@A" => {
            use mahf::{components::{boundary, initialization, mapping, swarm}, identifier::A, lens::ValueOf};
            Ok(Configuration::builder()
                .do_(initialization::RandomSpread::new(u(p, "pop_size")))
                .evaluate_with::<A>()
                .update_best_individual()
                .do_(fa::fa::<P, A>(
                    fa::Parameters {
                        firefly_update: swarm::fa::FireflyPositionsUpdate::<A>::new_with_id(f(p, "alpha"), f(p, "beta"), f(p, "gamma")),
                        constraints: boundary::Saturation::new(),
                        alpha_update: Box::from(mapping::sa::GeometricCooling::new(f(p, "delta"), ValueOf::<swarm::fa::RandomizationParameter>::new())),
                    },
                    cond(),
                ))
                .build())
        }
        "real_fa" => fa::real_fa(fa::RealProblemParameters { pop_size: u(p, "pop_size"), alpha: f(p, "alpha"), beta: f(p, "beta"), gamma: f(p, "gamma"), delta: f(p, "delta") }, cond()),
        "real_bh" => bh::real_bh(bh::RealProblemParameters { num_particles: u(p, "num_particles") }, cond()),
        // C20: the CRO template used as a step of a heuristic that keeps a population of its own further down the stack
        "real_cro|under" => {
            let inner = real_template::<P>("real_cro", p, n)?.into_inner();
            Ok(Configuration::builder().do_(initialization::RandomSpread::new(u(p, "under_size"))).evaluate().update_best_individual().do_(inner).build())
        }
        "real_cro" => cro::real_cro(
            cro::RealProblemParameters {
                initial_population_size: u(p, "initial_population_size"),
                mole_coll: f(p, "mole_coll"),
                kinetic_energy_lr: f(p, "kinetic_energy_lr"),
                alpha: u(p, "alpha"),
                beta: f(p, "beta"),
                initial_kinetic_energy: f(p, "initial_kinetic_energy"),
                buffer: f(p, "buffer"),
                on_wall_deviation: f(p, "on_wall_deviation"),
                decomposition_deviation: f(p, "decomposition_deviation"),
            },
            cond(),
        ),
        other => Err(eyre::eyre!("unknown real template {other}")),
    }
}

pub fn bit_template<P>(name: &str, p: &Value, n: u32) -> ExecResult<Configuration<P>>
where
    P: SingleObjectiveProblem + VectorProblem<Element = bool>,
{
    use mahf::components::{initialization, mutation, recombination};
    if let Some(c) = name.strip_prefix("comp:") {
        let pc = p["pc"].as_f64().unwrap_or(1.0);
        let rm = p["rm"].as_f64().unwrap_or(1.0);
        let component: Box<dyn Component<P>> = match c {
            "UniformCrossover_single" => recombination::UniformCrossover::new_insert_single(pc),
            "UniformCrossover_both" => recombination::UniformCrossover::new_insert_both(pc),
            "NPointCrossover_single" => recombination::NPointCrossover::new_insert_single(1, pc),
            "NPointCrossover_both" => recombination::NPointCrossover::new_insert_both(1, pc),
            "BitFlipMutation" => mutation::BitFlipMutation::new(rm),
            "PartialRandomBitstring" => mutation::PartialRandomBitstring::new_uniform(rm),
            other => return Err(eyre::eyre!("unknown bit component {other}")),
        };
        return component_loop(initialization::RandomBitstring::new_uniform(u(p, "popsize")), component, p, n);
    }
    match name {
        "binary_ga" => ga::binary_ga(
            ga::BinaryProblemParameters { population_size: u(p, "population_size"), tournament_size: u(p, "tournament_size"), rm: f(p, "rm"), pc: f(p, "pc"), pm: f(p, "pm") },
            LessThanN::iterations(n),
        ),
        other => Err(eyre::eyre!("unknown bit template {other}")),
    }
}

pub fn perm_template<P>(name: &str, p: &Value, n: u32) -> ExecResult<Configuration<P>>
where
    P: SingleObjectiveProblem + TravellingSalespersonProblem,
{
    use mahf::components::{initialization, mutation, recombination};
    let cond = || LessThanN::iterations(n);
    if let Some(c) = name.strip_prefix("comp:") {
        let pc = p["pc"].as_f64().unwrap_or(1.0);
        let component: Box<dyn Component<P>> = match c {
            "CycleCrossover_single" => recombination::CycleCrossover::new_insert_single(pc),
            "CycleCrossover_both" => recombination::CycleCrossover::new_insert_both(pc),
            "SwapMutation" => mutation::SwapMutation::new(2)?,
            "ScrambleMutation" => <mutation::ScrambleMutation>::new_full(),
            "InversionMutation" => mutation::InversionMutation::new::<P, usize>(),
            "InsertionMutation" => mutation::common::InsertionMutation::new(),
            "TranslocationMutation" => mutation::TranslocationMutation::new(),
            other => return Err(eyre::eyre!("unknown permutation component {other}")),
        };
        return component_loop(initialization::RandomPermutation::new(u(p, "popsize")), component, p, n);
    }
    match name {
        "permutation_sa" => sa::permutation_sa(sa::PermutationProblemParameters { t_0: f(p, "t_0"), alpha: f(p, "alpha"), num_swap: u(p, "num_swap") }, cond()),
        "permutation_ls" => ls::permutation_ls(ls::PermutationProblemParameters { num_neighbors: u(p, "num_neighbors"), num_swap: u(p, "num_swap") }, cond()),
        "permutation_ils" => ils::permutation_ils(
            ils::PermutationProblemParameters {
                ls_params: ls::PermutationProblemParameters { num_neighbors: u(p, "num_neighbors"), num_swap: u(p, "num_swap") },
                ls_condition: LessThanN::iterations(u(p, "ls_iterations")),
            },
            cond(),
        ),
        "permutation_rs" => rs::permutation_rs(cond()),
        "permutation_random_walk" => rw::permutation_random_walk(rw::PermutationProblemParameters { num_swap: u(p, "num_swap") }, cond()),
        "ant_system" => aco::ant_system(
            aco::ASParameters::verif_new(u(p, "num_ants") as usize, f(p, "alpha"), f(p, "beta"), f(p, "default_pheromones"), f(p, "evaporation"), f(p, "decay_coefficient")),
            cond(),
        ),
        "max_min_ant_system" => aco::max_min_ant_system(
            aco::MMASParameters::verif_new(u(p, "num_ants") as usize, f(p, "alpha"), f(p, "beta"), f(p, "default_pheromones"), f(p, "evaporation"), f(p, "max_pheromones"), f(p, "min_pheromones")),
            cond(),
        ),
        other => Err(eyre::eyre!("unknown permutation template {other}")),
    }
}

fn no_extra<P: Instrumented>() -> Extra<P> {
    Box::new(|_, _, _| (Vec::new(), json!({})))
}

/// One run specification -> trace records.
pub fn run_spec(out: &mut Out, run: u64, spec: &Value) {
    let name = spec["template"].as_str().unwrap();
    let params = &spec["params"];
    let n = spec["n"].as_u64().unwrap() as u32;
    let seed = spec["seed"].as_u64().unwrap();
    // "seq" | "par" (global pool) | "par<k>" (a pool of k worker threads)
    let ev = spec["eval"].as_str().unwrap_or("seq");
    let parallel = ev.starts_with("par");
    let threads: usize = ev.strip_prefix("par").and_then(|k| k.parse().ok()).unwrap_or(0);
    let prob = &spec["prob"];
    let mut header = spec.clone();
    macro_rules! go {
        ($problem:expr, $config:expr, $extra:expr) => {{
            let problem = $problem;
            let (xk, extra) = $extra;
            header["xk"] = json!(xk);
            match caught(|| $config) {
                Err(p) => {
                    header["ctor"] = json!("panic");
                    header["ctor_error"] = json!(p);
                    header["tree"] = json!([]);
                    let mut h = header.clone();
                    h["run"] = json!(run);
                    h["ev"] = json!("start");
                    out.emit(&h);
                    out.emit(&json!({"run": run, "t": name, "ev": "end", "result": "ctor_panic", "error": "", "evals": -1, "iters": -1, "calls": 0, "minseen": NOOBJ}));
                }
                Ok(Err(e)) => {
                    header["ctor"] = json!("err");
                    header["ctor_error"] = json!(format!("{e:#}"));
                    header["tree"] = json!([]);
                    let mut h = header.clone();
                    h["run"] = json!(run);
                    h["ev"] = json!("start");
                    out.emit(&h);
                    out.emit(&json!({"run": run, "t": name, "ev": "end", "result": "ctor_err", "error": format!("{e:#}"), "evals": -1, "iters": -1, "calls": 0, "minseen": NOOBJ}));
                }
                Ok(Ok(config)) => {
                    header["ctor"] = json!("ok");
                    let o = observe_with(&config, &problem, seed, extra, &RunOpts { parallel, threads, eval_id_a: name.ends_with("@A"), eval_both: name.ends_with("@AG"),
                                                                                   log_lt: if name.ends_with("|log4") { 4 } else { 0 }, ..Default::default() });
                    header["tree"] = o.tree.clone();
                    let values = problem.stats().values.lock().unwrap().clone();
                    emit_run(out, run, &header, &o, &values);
                }
            }
        }};
    }
    match prob["kind"].as_str().unwrap() {
        "real" => {
            let mut problem = RealProblem::new(prob["f"].as_u64().unwrap_or(0) as u8, prob["dim"].as_u64().unwrap() as usize, prob["lo"].as_f64().unwrap(), prob["hi"].as_f64().unwrap());
            problem.hetero = prob["hetero"].as_u64() == Some(1);
            let base = name.strip_suffix("|log4").unwrap_or(name);
            go!(problem, real_template::<RealProblem>(base, params, n), super::templates_extra::real_extra(base, params, n))
        }
        "bits" => {
            let dim = prob["dim"].as_u64().unwrap() as usize;
            let problem = if prob["f"].as_u64() == Some(1) { BitProblem::positional(dim) } else { BitProblem::new(dim) };
            go!(problem, bit_template::<BitProblem>(name, params, n), ("-".to_string(), no_extra::<BitProblem>()))
        }
        "tsp" => {
            let problem = TspProblem::new(prob["f"].as_u64().unwrap_or(0) as u8, prob["dim"].as_u64().unwrap() as usize);
            go!(problem, perm_template::<TspProblem>(name, params, n), super::templates_extra::tsp_extra(name, params))
        }
        other => panic!("unknown problem kind {other}"),
    }
}

pub fn main(args: &Args) -> usize {
    let mut out = Out::create(&args.str("out"));
    match args.mode.as_str() {
        "runs" => {
            for (k, spec) in read_ndjson(&args.str("in")).iter().enumerate() {
                let run = spec["run"].as_u64().unwrap_or(k as u64);
                run_spec(&mut out, run, spec);
            }
        }
        // C15: every template over the grid can be serialised; parameter values show; clones are identical
        "ser" => {
            let dir = std::path::Path::new(&args.str("out")).parent().map(|p| p.to_path_buf()).unwrap_or_default();
            let mut keys: HashMap<String, i64> = HashMap::new();
            let mut sers: HashMap<String, i64> = HashMap::new();
            for (k, spec) in read_ndjson(&args.str("in")).iter().enumerate() {
                let name = spec["template"].as_str().unwrap();
                let params = &spec["params"];
                let n = spec["n"].as_u64().unwrap() as u32;
                macro_rules! facts {
                    ($cfg:expr) => {{
                        match $cfg {
                            Err(e) => (0i64, 0i64, format!("ctor: {e:#}"), String::new()),
                            Ok(config) => {
                                let p1 = dir.join(format!("cfg-{}-{k}.ron", std::process::id()));
                                let p2 = dir.join(format!("cfg-{}-{k}.clone.ron", std::process::id()));
                                let r1 = match config.to_ron(&p1) {
                                    Ok(()) => std::fs::read_to_string(&p1).ok(),
                                    Err(e) => {
                                        if std::env::var("VERIF_DEBUG").is_ok() {
                                            eprintln!("to_ron failed: {e:#}");
                                        }
                                        None
                                    }
                                };
                                let cl = config.clone();
                                let r2 = cl.to_ron(&p2).ok().and_then(|_| std::fs::read_to_string(&p2).ok());
                                let _ = std::fs::remove_file(&p1);
                                let _ = std::fs::remove_file(&p2);
                                let named = to_named(config.heuristic()).map(|v| v.to_string()).unwrap_or_default();
                                let named2 = to_named(cl.heuristic()).map(|v| v.to_string()).unwrap_or_default();
                                let same = (r1.is_some() && r1 == r2 && named == named2) as i64;
                                (r1.is_some() as i64, same, r1.unwrap_or_default(), named)
                            }
                        }
                    }};
                }
                let (ron_ok, clone_same, ron, named) = match spec["prob"]["kind"].as_str().unwrap() {
                    // configurations assembled from a builder term / a condition in a place (serterms.rs)
                    "real" if name == "struct" => facts!(super::serterms::struct_config(&params["term"])),
                    "real" if name == "condp" => facts!(super::serterms::cond_config(params)),
                    "real" => facts!(real_template::<RealProblem>(name, params, n)),
                    "bits" => facts!(bit_template::<BitProblem>(name, params, n)),
                    _ => facts!(perm_template::<TspProblem>(name, params, n)),
                };
                if ron_ok == 0 && ron.starts_with("ctor:") && spec["opt"].as_u64() == Some(1) {
                    // a perturbed parameter set the constructor does not accept: not a configuration
                    continue;
                }
                // `evaluate()` is `evaluate_with::<Global>()`: the same configuration
                let key = if name == "struct" {
                    // the structure is computed from the term by the specification (Trace_Ser: Str)
                    String::new()
                } else if name == "condp" {
                    // `via` selects one of two equivalent constructors: not a parameter
                    let mut q = params.clone();
                    q.as_object_mut().map(|m| m.remove("via"));
                    format!("condp|{q}")
                } else if name == "cond" {
                    format!("cond|{}", params["c"].as_str().unwrap())
                } else if name == "ident" {
                    format!("ident|{}", params["id"].as_str().map(|i| if i == "default" { "mahf::Global" } else { i }).unwrap())
                } else {
                    // (a "|log4" variant is the same configuration run with another log setup)
                    format!("{}|{params}|{n}", name.strip_suffix("|log4").unwrap_or(name))
                };
                let nk = keys.len() as i64 + 1;
                let key_id = *keys.entry(key).or_insert(nk);
                let ns = sers.len() as i64 + 1;
                let _ = named;
                let ser_id = *sers.entry(ron).or_insert(ns);
                let term = if name == "struct" { params["term"].clone() } else { json!({"op": "-", "v": "", "a": [], "e": []}) };
                out.emit(&json!({"run": k, "t": name, "params": if name == "struct" { json!({}) } else { params.clone() }, "n": n,
                                 "key": key_id, "ser": ser_id, "term": term, "ron_ok": ron_ok, "clone_same": clone_same}));
            }
        }
        // only the serialised component trees of the templates (Wiring)
        "trees" => {
            for (k, spec) in read_ndjson(&args.str("in")).iter().enumerate() {
                let name = spec["template"].as_str().unwrap();
                let params = &spec["params"];
                let n = spec["n"].as_u64().unwrap() as u32;
                let tree = match spec["prob"]["kind"].as_str().unwrap() {
                    "real" => real_template::<RealProblem>(name, params, n).map(|c| to_named(c.heuristic()).unwrap()),
                    "bits" => bit_template::<BitProblem>(name, params, n).map(|c| to_named(c.heuristic()).unwrap()),
                    _ => perm_template::<TspProblem>(name, params, n).map(|c| to_named(c.heuristic()).unwrap()),
                };
                out.emit(&json!({"run": k, "template": name, "tree": tree.unwrap_or(json!("ctor_err"))}));
            }
        }
        other => panic!("unknown mode {other}"),
    }
    out.finish()
}
