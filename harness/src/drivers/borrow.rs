//! Driver for spec module `Borrow` (C02): guards kept alive while further requests are issued,
//! the multi-borrow, and nested `State::holding`.
//!
//! A session interprets a stream of calls on a real `State`.  `&self` calls run inside a *guard
//! phase* (a stack frame that owns the live `Ref`/`RefMut` guards, all borrowed from the same
//! `&StateRegistry`); the phase ends when the stream issues a call that needs `&mut self`, at which
//! point the specification guarantees that no guard is alive.  `hold_enter` runs the following
//! calls *inside* the closure passed to `State::holding`, recursively.
use std::{
    cell::{Ref, RefMut},
    ops::Deref,
};

use mahf::{State, StateError};
use rand::{seq::SliceRandom, Rng};
use rand_chacha::ChaCha8Rng;
use serde_json::{json, Value};

use super::{multi_gen, registry::*};
use crate::{
    tagproblem::TagProblem,
    util::{caught, read_ndjson, rng, Args, Out, NOVAL},
    with_type,
};

type St = State<'static, TagProblem>;

enum G<'r> {
    Sh(Ref<'r, u32>),
    Ex(RefMut<'r, u32>),
}

impl G<'_> {
    fn value(&self) -> u32 {
        match self {
            G::Sh(g) => **g,
            G::Ex(g) => **g,
        }
    }
}

#[derive(Clone)]
struct GuardMeta {
    i: usize,
    t: String,
    k: &'static str,
    value: u32,
}

struct HeldMeta {
    t: String,
    i: usize,
    ptr: *mut u32,
}

/// What the act source is told about the current situation.
pub struct Info {
    pub depth: usize,
    pub live: Vec<(usize, &'static str)>, // (slot (1-based), kind)
    pub free_slots: usize,
    pub held: usize,
    pub min_poppable: bool,
}

trait Source {
    fn next(&mut self, info: &Info) -> Option<Value>;
}

struct Replay {
    acts: Vec<Value>,
    pos: usize,
}
impl Source for Replay {
    fn next(&mut self, _: &Info) -> Option<Value> {
        let a = self.acts.get(self.pos).cloned();
        self.pos += 1;
        a
    }
}

struct Session<'o> {
    src: Box<dyn Source>,
    out: &'o mut Out,
    run: u64,
    i: usize,
    nt: usize,
    maxg: usize,
    pending: Option<Value>,
    /// the call being executed (reported if the code under test panics where no panic is expected)
    last: Value,
    guards: Vec<Option<GuardMeta>>,
    held: Vec<HeldMeta>,
}

pub fn bact(op: &str, t: &str, v: i64, w: i64, d: usize, f: &str, ts: Value, vs: Value) -> Value {
    json!({"op": op, "t": t, "v": v, "w": w, "d": d, "f": f, "ts": ts, "vs": vs})
}

fn lift(mut a: Value) -> Value {
    let o = a.as_object_mut().unwrap();
    o.entry("ts").or_insert(json!([]));
    o.entry("vs").or_insert(json!([]));
    a
}

/// index (1-based, root = 1) of the innermost scope of the view that binds `t`; 0 if none
fn innermost(reg: &Reg, t: &str, d: usize) -> usize {
    let total = depth(reg);
    let mut cur = Some(ancestor(reg, d));
    let mut idx = total - d;
    while let Some(r) = cur {
        let has = with_type!(t, T => r.contains_at_top::<T>());
        if has {
            return idx;
        }
        cur = r.parent();
        idx -= 1;
    }
    0
}

impl Session<'_> {
    fn info(&self, reg: &Reg) -> Info {
        let depth = depth(reg);
        Info {
            depth,
            live: self.guards.iter().enumerate().filter_map(|(g, m)| m.as_ref().map(|m| (g + 1, m.k))).collect(),
            free_slots: self.guards.iter().filter(|m| m.is_none()).count(),
            held: self.held.len(),
            min_poppable: self.held.iter().all(|h| h.i < depth),
        }
    }

    fn next(&mut self, reg: &Reg) -> Option<Value> {
        if let Some(a) = self.pending.take() {
            self.last = a.clone();
            return Some(a);
        }
        let info = self.info(reg);
        let a = self.src.next(&info).map(lift);
        if let Some(a) = &a {
            self.last = a.clone();
        }
        a
    }

    /// scopes with the cells under an exclusive guard read through that guard's last known value
    fn project(&self, reg: &Reg) -> Value {
        let mut scopes = project(reg, self.nt);
        for m in self.guards.iter().flatten() {
            if m.k == "ex" {
                scopes[m.i - 1][&m.t] = json!(m.value);
            }
        }
        scopes
    }

    fn emit(&mut self, reg: &Reg, a: &Value, res: Value) {
        let guards: Vec<Value> = self
            .guards
            .iter()
            .map(|m| match m {
                Some(m) => json!({"i": m.i, "t": m.t, "k": m.k}),
                None => json!({"i": 0, "t": "-", "k": "-"}),
            })
            .collect();
        let held: Vec<Value> =
            self.held.iter().map(|h| json!({"t": h.t, "i": h.i, "v": unsafe { *h.ptr }})).collect();
        let rec = json!({"run": self.run, "i": self.i, "act": a, "res": res, "scopes": self.project(reg),
                         "guards": guards, "held": held});
        self.out.emit(&rec);
        self.i += 1;
    }
}

fn acquire<'r, T: Marker>(reg: &'r Reg, f: &str) -> Result<Result<G<'r>, StateError>, String> {
    match f {
        "try_borrow" => Ok(reg.try_borrow::<T>().map(|g| G::Sh(Ref::map(g, |x| x.deref())))),
        "try_borrow_value" => Ok(reg.try_borrow_value::<T>().map(G::Sh)),
        "try_borrow_mut" => Ok(reg.try_borrow_mut::<T>().map(|g| G::Ex(RefMut::map(g, |x| &mut **x)))),
        "try_borrow_value_mut" => Ok(reg.try_borrow_value_mut::<T>().map(G::Ex)),
        "borrow" => caught(|| Ok(G::Sh(Ref::map(reg.borrow::<T>(), |x| x.deref())))),
        "borrow_value" => caught(|| Ok(G::Sh(reg.borrow_value::<T>()))),
        "borrow_mut" => caught(|| Ok(G::Ex(RefMut::map(reg.borrow_mut::<T>(), |x| &mut **x)))),
        "borrow_value_mut" => caught(|| Ok(G::Ex(reg.borrow_value_mut::<T>()))),
        other => panic!("unknown acquire form {other}"),
    }
}

/// Runs `&self` calls with live guards until a call needing `&mut self` shows up (left in `pending`).
fn guard_phase<'r>(sess: &mut Session, reg: &'r Reg, first: Value) {
    let mut guards: Vec<Option<G<'r>>> = (0..sess.maxg).map(|_| None).collect();
    let nt = sess.nt;
    let mut a = first;
    loop {
        let op = a["op"].as_str().unwrap().to_string();
        let res = match op.as_str() {
            "acquire" => {
                let t = a["t"].as_str().unwrap();
                let d = a["d"].as_u64().unwrap() as usize;
                let f = a["f"].as_str().unwrap();
                let slot = match guards.iter().position(|g| g.is_none()) {
                    Some(s) => s,
                    None => {
                        sess.emit(reg, &a, r("no_free_slot", NOVAL, nt));
                        match sess.next(reg) {
                            Some(n) => {
                                a = n;
                                continue;
                            }
                            None => return,
                        }
                    }
                };
                let cell = innermost(reg, t, d);
                let got = with_type!(t, T => acquire::<T>(ancestor(reg, d), f));
                match got {
                    Err(_) => r("panic", NOVAL, nt),
                    Ok(Err(e)) => r(err_kind(&e), NOVAL, nt),
                    Ok(Ok(g)) => {
                        let value = g.value();
                        let k = if matches!(g, G::Ex(_)) { "ex" } else { "sh" };
                        sess.guards[slot] = Some(GuardMeta { i: cell, t: t.to_string(), k, value });
                        guards[slot] = Some(g);
                        r("ok", value as i64, nt)
                    }
                }
            }
            "release" => {
                let g = a["v"].as_u64().unwrap() as usize - 1;
                guards[g] = None;
                sess.guards[g] = None;
                r("ok", NOVAL, nt)
            }
            "read_via" => {
                let g = a["v"].as_u64().unwrap() as usize - 1;
                // a dead slot can only be addressed after the run has already diverged from the spec
                match guards[g].as_ref() {
                    Some(x) => r("ok", x.value() as i64, nt),
                    None => r("dead_guard", NOVAL, nt),
                }
            }
            "write_via" => {
                let g = a["v"].as_u64().unwrap() as usize - 1;
                let w = a["w"].as_u64().unwrap() as u32;
                match guards[g].as_mut() {
                    Some(G::Ex(x)) => {
                        let old = std::mem::replace(&mut **x, w);
                        sess.guards[g].as_mut().unwrap().value = w;
                        r("ok", old as i64, nt)
                    }
                    _ => r("dead_guard", NOVAL, nt),
                }
            }
            _ => match exec_shared(reg, &a, nt) {
                Some(res) => res,
                None => {
                    // (guards can be left only if the run has already diverged from the spec)
                    for m in sess.guards.iter_mut() {
                        *m = None;
                    }
                    sess.pending = Some(a);
                    return;
                }
            },
        };
        sess.emit(reg, &a, res);
        a = match sess.next(reg) {
            Some(a) => a,
            None => {
                // end of the stream: guards are dropped silently
                for m in sess.guards.iter_mut() {
                    *m = None;
                }
                return;
            }
        };
    }
}

fn is_shared(op: &str) -> bool {
    matches!(op, "acquire" | "release" | "read_via" | "write_via" | "contains" | "contains_at_top" | "read" | "write" | "set_value")
}

#[macro_export]
macro_rules! multi_arm_impl {
    ($reg:expr, $vs:expr, $f:expr, $nt:expr; $($x:ident : $T:ident),+) => {{
        let reg: &mut Reg = $reg;
        let vs: &[u32] = $vs;
        if $f == "tuple_distinct" {
            // the tuple trait's own predicate
            let d = <($($T),+) as mahf::state::registry::MultiStateTuple>::distinct();
            r("bool", d as i64, $nt)
        } else {
        let outcome: Result<Result<i64, mahf::StateError>, String> = {
            // every public entry point: the panicking and the checked registry method, and the (safe, public)
            // method of the tuple trait itself
            let got = match $f {
                "get_multiple_mut" => $crate::util::caught(|| Ok(reg.get_multiple_mut::<($($T),+)>())),
                "try_get_multiple_mut" => Ok(reg.try_get_multiple_mut::<($($T),+)>()),
                "tuple_try_get_mut" => Ok(<($($T),+) as mahf::state::registry::MultiStateTuple>::try_get_mut(reg)),
                other => panic!("unknown multi-borrow form {other}"),
            };
            match got {
                Err(p) => Err(p),
                Ok(Err(e)) => Ok(Err(e)),
                Ok(Ok(($($x),+))) => {
                    let ptrs: Vec<usize> = vec![$($x as *mut $T as usize),+];
                    let mut distinct = true;
                    for i in 0..ptrs.len() {
                        for j in 0..i {
                            distinct &= ptrs[i] != ptrs[j];
                        }
                    }
                    // (aliasing references are reported, never written through)
                    if distinct {
                        let mut k = 0;
                        $( **$x = vs[k]; k += 1; )+
                        let _ = k;
                    }
                    Ok(Ok(distinct as i64))
                }
            }
        };
        match outcome {
            Err(_) => r("panic", $crate::util::NOVAL, $nt),
            Ok(Err(e)) => r(err_kind(&e), $crate::util::NOVAL, $nt),
            Ok(Ok(distinct)) => {
                // read every written value back through an ordinary lookup from the same view
                let mut k = 0;
                let mut back = true;
                $( back &= reg.try_get_value::<$T>().map(|v| v == vs[k]).unwrap_or(false); k += 1; )+
                let _ = k;
                r("ok", (distinct == 1 && back) as i64, $nt)
            }
        }
        }
    }};
}
pub use multi_arm_impl as multi_arm;

fn run_body(sess: &mut Session, state: &mut St, in_hold: bool) -> Option<(Value, bool)> {
    loop {
        let a = match sess.next(state) {
            Some(a) => a,
            None => return None,
        };
        let op = a["op"].as_str().unwrap().to_string();
        let nt = sess.nt;
        if is_shared(&op) {
            guard_phase(sess, state, a);
            continue;
        }
        match op.as_str() {
            "multi" => {
                let ts: Vec<String> = a["ts"].as_array().unwrap().iter().map(|x| x.as_str().unwrap().to_string()).collect();
                let vs: Vec<u32> = a["vs"].as_array().unwrap().iter().map(|x| x.as_u64().unwrap() as u32).collect();
                let f = a["f"].as_str().unwrap();
                let d = a["d"].as_u64().unwrap() as usize;
                let key = ts.join(",");
                let res = multi_gen::dispatch(ancestor_mut(&mut **state, d), &key, &vs, f, nt)
                    .unwrap_or_else(|| panic!("tuple {key} not instantiated"));
                sess.emit(state, &a, res);
            }
            "hold_enter" => {
                let t = a["t"].as_str().unwrap().to_string();
                let cell = innermost(state, &t, 0);
                let mut entered = false;
                let mut exit: Option<(Value, bool, i64)> = None;
                let result = with_type!(t.as_str(), T => state.holding::<T>(|tref, st| {
                    entered = true;
                    let old = **tref as i64;
                    sess.held.push(HeldMeta { t: t.clone(), i: cell, ptr: &mut **tref as *mut u32 });
                    sess.emit(st, &a, r("ok", old, nt));
                    let end = run_body(sess, st, true);
                    let v = **tref as i64;
                    sess.held.pop();
                    match end {
                        Some((exit_act, ok)) => {
                            exit = Some((exit_act, ok, v));
                            if ok { Ok(()) } else { Err(eyre::eyre!("body failed")) }
                        }
                        // the stream ended inside the body: leave silently, nothing is logged
                        None => Ok(()),
                    }
                }));
                if !entered {
                    let kind = match &result {
                        Err(e) => e.downcast_ref::<StateError>().map(err_kind).unwrap_or("err"),
                        Ok(()) => "ok_without_body",
                    };
                    sess.emit(state, &a, r(kind, NOVAL, nt));
                } else if let Some((exit_act, _, v)) = exit {
                    let kind = if result.is_ok() { "ok" } else { "err" };
                    sess.emit(state, &exit_act, r(kind, v, nt));
                } else {
                    return None;
                }
            }
            "inner" => {
                // with_inner_state: the closure inserts t := v into the child scope, checks what it sees, returns Ok / Err
                let t = a["t"].as_str().unwrap().to_string();
                let v = a["v"].as_u64().unwrap() as u32;
                let fail = a["f"].as_str().unwrap() == "fail";
                let mut seen_inside = NOVAL;
                let result = crate::util::caught(std::panic::AssertUnwindSafe(|| {
                    with_type!(t.as_str(), T => state.with_inner_state(|inner| {
                        inner.insert(T::from(v));
                        seen_inside = inner.try_get_value::<T>().map(|x| x as i64).unwrap_or(NOVAL);
                        if fail { Err(eyre::eyre!("inner run failed")) } else { Ok(()) }
                    }).map(|child| with_type!(t.as_str(), U => child.try_get_value::<U>().map(|x| x as i64).unwrap_or(NOVAL))))
                }));
                let res = match result {
                    Err(_) => r("panic", NOVAL, nt),
                    Ok(Err(_)) => r("err", seen_inside, nt),
                    // the returned child holds what the closure inserted, and the closure saw it
                    Ok(Ok(child_v)) => r("ok", if child_v == seen_inside { child_v } else { NOVAL }, nt),
                };
                sess.emit(state, &a, res);
            }
            "hold_write" if !in_hold => sess.emit(state, &a, r("not_holding", NOVAL, nt)),
            "hold_exit" if !in_hold => sess.emit(state, &a, r("not_holding", NOVAL, nt)),
            "hold_write" => {
                let v = a["v"].as_u64().unwrap() as u32;
                let h = sess.held.last().unwrap();
                let old = unsafe { std::mem::replace(&mut *h.ptr, v) };
                sess.emit(state, &a, r("ok", old as i64, nt));
            }
            "hold_exit" => {
                let ok = a["f"].as_str().unwrap() == "ok";
                return Some((a, ok));
            }
            _ => {
                let res = exec(&mut **state, &a, nt);
                sess.emit(state, &a, res);
            }
        }
    }
}

// ---------------------------------------------------------------------------------------------

struct RandomSrc {
    rng: ChaCha8Rng,
    left: u64,
    nt: usize,
    nvals: u32,
    maxdepth: usize,
    maxhold: usize,
    big: bool,
}

impl Source for RandomSrc {
    fn next(&mut self, info: &Info) -> Option<Value> {
        if self.left == 0 {
            return None;
        }
        self.left -= 1;
        let rng = &mut self.rng;
        let nt = self.nt;
        let t = TYPE_NAMES[rng.gen_range(0..nt)];
        let v = rng.gen_range(0..self.nvals) as i64;
        let d = if rng.gen_bool(0.6) { 0 } else { rng.gen_range(0..info.depth) };
        let e = json!([]);
        let shared = |rng: &mut ChaCha8Rng| -> Value {
            loop {
                match rng.gen_range(0..100) {
                    0..=34 if info.free_slots > 0 => {
                        let f = *["try_borrow", "try_borrow_value", "try_borrow_mut", "try_borrow_value_mut", "borrow",
                                  "borrow_value", "borrow_mut", "borrow_value_mut"].choose(rng).unwrap();
                        return bact("acquire", t, NOVAL, NOVAL, d, f, json!([]), json!([]));
                    }
                    35..=54 if !info.live.is_empty() => {
                        let (g, _) = *info.live.choose(rng).unwrap();
                        return bact("release", "-", g as i64, NOVAL, 0, "-", json!([]), json!([]));
                    }
                    55..=62 if !info.live.is_empty() => {
                        let (g, _) = *info.live.choose(rng).unwrap();
                        return bact("read_via", "-", g as i64, NOVAL, 0, "-", json!([]), json!([]));
                    }
                    63..=72 => {
                        let ex: Vec<_> = info.live.iter().filter(|(_, k)| *k == "ex").collect();
                        if let Some((g, _)) = ex.choose(rng) {
                            return bact("write_via", "-", *g as i64, v, 0, "-", json!([]), json!([]));
                        }
                    }
                    73..=82 => return bact("read", t, NOVAL, NOVAL, d, READ_FORMS.choose(rng).unwrap(), json!([]), json!([])),
                    83..=90 => return bact("write", t, v, NOVAL, d, WRITE_FORMS.choose(rng).unwrap(), json!([]), json!([])),
                    91..=96 => return bact("set_value", t, v, NOVAL, d, "-", json!([]), json!([])),
                    97..=99 => return bact("contains", t, NOVAL, NOVAL, d, "-", json!([]), json!([])),
                    _ => {}
                }
            }
        };
        if !info.live.is_empty() {
            return Some(shared(rng));
        }
        Some(match rng.gen_range(0..100) {
            0..=29 => shared(rng),
            30..=44 => {
                // multi-borrow
                let f = *["try_get_multiple_mut", "try_get_multiple_mut", "tuple_try_get_mut", "tuple_try_get_mut",
                          "get_multiple_mut", "tuple_distinct"].choose(rng).unwrap();
                let key = if self.big {
                    multi_gen::KEYS[rng.gen_range(0..multi_gen::KEYS.len())]
                } else {
                    loop {
                        let k = multi_gen::KEYS[rng.gen_range(0..multi_gen::KEYS.len())];
                        if k.split(',').all(|x| TYPE_NAMES[..nt].contains(&x)) {
                            break k;
                        }
                    }
                };
                let ts: Vec<&str> = key.split(',').collect();
                let vs: Vec<u32> = ts.iter().map(|_| rng.gen_range(0..self.nvals)).collect();
                bact("multi", "-", NOVAL, NOVAL, d, f, json!(ts), json!(vs))
            }
            45..=53 if info.held < self.maxhold => bact("hold_enter", t, NOVAL, NOVAL, 0, "-", e.clone(), e),
            54..=56 => bact("inner", t, v, NOVAL, 0, if rng.gen_bool(0.5) { "ok" } else { "fail" }, e.clone(), e),
            57..=63 if info.held > 0 => bact("hold_write", "-", v, NOVAL, 0, "-", e.clone(), e),
            64..=75 if info.held > 0 => {
                bact("hold_exit", "-", NOVAL, NOVAL, 0, if rng.gen_bool(0.5) { "ok" } else { "fail" }, e.clone(), e)
            }
            _ => loop {
                let a = lift(random_act(rng, info.depth, nt, self.nvals, self.maxdepth));
                let op = a["op"].as_str().unwrap();
                if is_shared(op) {
                    continue;
                }
                if op == "pop" && !info.min_poppable {
                    continue;
                }
                break a;
            },
        })
    }
}

fn reset_rec(run: u64, nt: usize, maxg: usize) -> Value {
    let guards: Vec<Value> = (0..maxg).map(|_| json!({"i": 0, "t": "-", "k": "-"})).collect();
    json!({"run": run, "act": bact("reset", "-", NOVAL, NOVAL, 0, "-", json!([]), json!([])), "res": r("ok", NOVAL, nt),
           "scopes": [empty_map(nt)], "guards": guards, "held": []})
}

fn session(out: &mut Out, run: u64, nt: usize, maxg: usize, src: Box<dyn Source>) {
    out.emit(&reset_rec(run, nt, maxg));
    let mut state: St = State::new();
    let mut sess = Session {
        src,
        out,
        run,
        i: 0,
        nt,
        maxg,
        pending: None,
        last: Value::Null,
        guards: (0..maxg).map(|_| None).collect(),
        held: Vec::new(),
    };
    match caught(std::panic::AssertUnwindSafe(|| run_body(&mut sess, &mut state, false))) {
        Ok(end) => assert!(end.is_none(), "hold_exit outside a holding body"),
        Err(m) => {
            // a panic outside the accessors that are allowed to panic (or inside the projection, because the call left
            // the state unusable): data, not a tool error -- the record matches no action of the model and the run ends
            for g in sess.guards.iter_mut() {
                if let Some(g) = g.take() {
                    std::mem::forget(g);
                }
            }
            let rec = json!({"run": sess.run, "i": sess.i, "act": sess.last, "res": {"k": "crash", "v": NOVAL, "m": empty_map(nt)},
                             "error": m, "scopes": [], "guards": [], "held": []});
            sess.out.emit(&rec);
        }
    }
}

pub fn main(args: &Args) -> usize {
    let nt = args.num("types", 2) as usize;
    let maxg = args.num("maxg", 2) as usize;
    let mut out = Out::create(&args.str("out"));
    match args.mode.as_str() {
        "replay" => {
            for sc in read_ndjson(&args.str("in")) {
                let run = sc["run"].as_u64().unwrap();
                let acts = sc["acts"].as_array().unwrap().clone();
                session(&mut out, run, nt, maxg, Box::new(Replay { acts, pos: 0 }));
            }
        }
        "random" => {
            let runs = args.num("n", 20);
            for run in 0..runs {
                let src = RandomSrc {
                    rng: rng(args.seed(), run),
                    left: args.num("len", 500),
                    nt,
                    nvals: args.num("vals", 3) as u32,
                    maxdepth: args.num("maxdepth", 3) as usize,
                    maxhold: args.num("maxhold", 3) as usize,
                    big: args.num("big", 0) == 1,
                };
                session(&mut out, run, nt, maxg, Box::new(src));
            }
        }
        other => panic!("unknown mode {other}"),
    }
    out.finish()
}
