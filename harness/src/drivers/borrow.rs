//! Driver for spec module `Borrow` (C02): guards kept alive while further requests are issued,
//! the multi-borrow, and nested `State::holding`.
//!
//! A session interprets a stream of calls on a real `State`.  `&self` calls run inside a *guard
//! phase* (a stack frame that owns the live `Ref`/`RefMut` guards, all borrowed from the same
//! `&StateRegistry`); the phase ends when the stream issues a call that needs `&mut self`, at which
//! point the specification guarantees that no guard is alive.  `hold_enter` runs the following
//! calls *inside* the closure passed to `State::holding`, recursively.
use std::{
    cell::{Ref, RefMut},
};

use mahf::{State, StateError};
use rand::{seq::SliceRandom, Rng};
use rand_chacha::ChaCha8Rng;
use serde_json::{json, Value};

use super::{multi_gen, registry::*};
use crate::{
    tagproblem::TagProblem,
    util::{caught, read_ndjson, rng, Args, Out, NOVAL},
    with_type, with_value_type,
};

type St = State<'static, TagProblem>;

enum G<'r> {
    Sh(Ref<'r, dyn Valued>),
    Ex(RefMut<'r, dyn Valued>),
}

impl G<'_> {
    fn value(&self) -> u32 {
        match self {
            G::Sh(g) => g.val(),
            G::Ex(g) => g.val(),
        }
    }
}

fn sh<'r, T: Valued + 'static>(g: Ref<'r, T>) -> G<'r> {
    G::Sh(Ref::map(g, |x| x as &dyn Valued))
}
fn ex<'r, T: Valued + 'static>(g: RefMut<'r, T>) -> G<'r> {
    G::Ex(RefMut::map(g, |x| x as &mut dyn Valued))
}

#[derive(Clone)]
struct GuardMeta {
    i: usize,
    t: String,
    k: &'static str,
    value: u32,
}

struct HeldMeta {
    t: String,
    i: usize,
    ptr: *mut dyn Valued,
}

/// What the act source is told about the current situation.
pub struct Info {
    pub depth: usize,
    pub live: Vec<(usize, &'static str)>, // (slot (1-based), kind)
    pub live_types: Vec<(usize, String)>,  // (slot (1-based), guarded type)
    pub free_slots: usize,
    pub held: usize,
    pub held_top_is_log: bool,
    pub min_poppable: bool,
}

trait Source {
    fn next(&mut self, info: &Info) -> Option<Value>;
}

struct Replay {
    acts: Vec<Value>,
    pos: usize,
}
impl Source for Replay {
    fn next(&mut self, _: &Info) -> Option<Value> {
        let a = self.acts.get(self.pos).cloned();
        self.pos += 1;
        a
    }
}

struct Session<'o> {
    src: Box<dyn Source>,
    out: &'o mut Out,
    run: u64,
    i: usize,
    nt: usize,
    maxg: usize,
    pending: Option<Value>,
    /// the call being executed (reported if the code under test panics where no panic is expected)
    last: Value,
    guards: Vec<Option<GuardMeta>>,
    held: Vec<HeldMeta>,
}

pub fn bact(op: &str, t: &str, v: i64, w: i64, d: usize, f: &str, ts: Value, vs: Value) -> Value {
    json!({"op": op, "t": t, "v": v, "w": w, "d": d, "f": f, "ts": ts, "vs": vs})
}

fn lift(mut a: Value) -> Value {
    let o = a.as_object_mut().unwrap();
    o.entry("ts").or_insert(json!([]));
    o.entry("vs").or_insert(json!([]));
    a
}

/// index (1-based, root = 1) of the innermost scope of the view that binds `t`; 0 if none
fn innermost(reg: &Reg, t: &str, d: usize) -> usize {
    let total = depth(reg);
    let mut cur = Some(ancestor(reg, d));
    let mut idx = total - d;
    while let Some(r) = cur {
        let has = with_type!(t, T => r.contains_at_top::<T>());
        if has {
            return idx;
        }
        cur = r.parent();
        idx -= 1;
    }
    0
}

impl Session<'_> {
    fn info(&self, reg: &Reg) -> Info {
        let depth = depth(reg);
        Info {
            depth,
            live: self.guards.iter().enumerate().filter_map(|(g, m)| m.as_ref().map(|m| (g + 1, m.k))).collect(),
            live_types: self.guards.iter().enumerate().filter_map(|(g, m)| m.as_ref().map(|m| (g + 1, m.t.clone()))).collect(),
            free_slots: self.guards.iter().filter(|m| m.is_none()).count(),
            held: self.held.len(),
            held_top_is_log: self.held.last().map(|h| h.t == "Log").unwrap_or(false),
            min_poppable: self.held.iter().all(|h| h.i < depth),
        }
    }

    fn next(&mut self, reg: &Reg) -> Option<Value> {
        if let Some(a) = self.pending.take() {
            self.last = a.clone();
            return Some(a);
        }
        let info = self.info(reg);
        let a = self.src.next(&info).map(lift);
        if let Some(a) = &a {
            self.last = a.clone();
        }
        a
    }

    /// scopes with the cells under an exclusive guard read through that guard's last known value
    fn project(&self, reg: &Reg) -> Value {
        let mut scopes = project(reg, self.nt);
        for m in self.guards.iter().flatten() {
            if m.k == "ex" {
                scopes[m.i - 1][&m.t] = json!(m.value);
            }
        }
        scopes
    }

    fn emit(&mut self, reg: &Reg, a: &Value, res: Value) {
        let guards: Vec<Value> = self
            .guards
            .iter()
            .map(|m| match m {
                Some(m) => json!({"i": m.i, "t": m.t, "k": m.k}),
                None => json!({"i": 0, "t": "-", "k": "-"}),
            })
            .collect();
        let held: Vec<Value> =
            self.held.iter().map(|h| json!({"t": h.t, "i": h.i, "v": unsafe { (*h.ptr).val() }})).collect();
        let rec = json!({"run": self.run, "i": self.i, "act": a, "res": res, "scopes": self.project(reg),
                         "guards": guards, "held": held});
        self.out.emit(&rec);
        self.i += 1;
    }
}

type Got<'r> = Result<Result<G<'r>, &'static str>, String>;

fn acquire<'r, T: Marker>(reg: &'r Reg, f: &str) -> Got<'r> {
    let e = |x: StateError| err_kind(&x);
    match f {
        "try_borrow" => Ok(reg.try_borrow::<T>().map(sh).map_err(e)),
        "try_borrow_mut" => Ok(reg.try_borrow_mut::<T>().map(ex).map_err(e)),
        "borrow" => caught(|| Ok(sh(reg.borrow::<T>()))),
        "borrow_mut" => caught(|| Ok(ex(reg.borrow_mut::<T>()))),
        other => panic!("unknown acquire form {other}"),
    }
}

fn acquire_value<'r, T: ValueMarker>(reg: &'r Reg, f: &str) -> Got<'r> {
    let e = |x: StateError| err_kind(&x);
    match f {
        "try_borrow_value" => Ok(reg.try_borrow_value::<T>().map(sh).map_err(e)),
        "try_borrow_value_mut" => Ok(reg.try_borrow_value_mut::<T>().map(ex).map_err(e)),
        "borrow_value" => caught(|| Ok(sh(reg.borrow_value::<T>()))),
        "borrow_value_mut" => caught(|| Ok(ex(reg.borrow_value_mut::<T>()))),
        other => panic!("unknown acquire form {other}"),
    }
}

/// the convenience accessors of `State` that hand out a guard
fn acquire_accessor<'r>(st: &'r St, f: &str) -> Got<'r> {
    match f {
        "state.best_individual" => caught(|| st.best_individual().map(sh).ok_or("none")),
        "state.populations" => caught(|| Ok(sh(st.populations()))),
        "state.populations_mut" => caught(|| Ok(ex(st.populations_mut()))),
        "state.random_mut" => caught(|| Ok(ex(st.random_mut()))),
        "state.log" => caught(|| Ok(sh(st.log()))),
        other => panic!("accessor {other} does not return a guard"),
    }
}

/// a convenience accessor of `State` used and dropped at once: read (v = None) or written through (v = Some)
fn use_accessor(st: &St, f: &str, v: Option<u32>, nt: usize) -> Value {
    let p = |x: Result<i64, String>| match x {
        Ok(v) => r("ok", v, nt),
        Err(_) => r("panic", NOVAL, nt),
    };
    // (the Option readers are not supposed to panic: a panic is recorded as the reply it is)
    let o = |x: Result<Option<i64>, String>| match x {
        Ok(Some(v)) => r("ok", v, nt),
        Ok(None) => r("none", NOVAL, nt),
        Err(_) => r("panic", NOVAL, nt),
    };
    match (f, v) {
        ("state.iterations", None) => p(caught(|| st.iterations() as i64)),
        ("state.evaluations", None) => p(caught(|| st.evaluations() as i64)),
        ("state.best_individual", None) => o(caught(|| st.best_individual().map(|g| g.val() as i64))),
        ("state.best_objective_value", None) => o(caught(|| st.best_objective_value().map(|x| x.value() as i64))),
        ("state.populations", None) => p(caught(|| st.populations().val() as i64)),
        ("state.populations_mut", None) => p(caught(|| st.populations_mut().val() as i64)),
        ("state.random_mut", None) => p(caught(|| st.random_mut().val() as i64)),
        ("state.log", None) => p(caught(|| st.log().val() as i64)),
        ("state.populations_mut", Some(v)) => p(caught(|| {
            let mut g = st.populations_mut();
            let old = g.val();
            g.put(v);
            old as i64
        })),
        ("state.random_mut", Some(v)) => p(caught(|| {
            let mut g = st.random_mut();
            let old = g.val();
            g.put(v);
            old as i64
        })),
        other => panic!("unknown accessor use {other:?}"),
    }
}

/// Runs `&self` calls with live guards until a call needing `&mut self` shows up (left in `pending`).
fn guard_phase<'r>(sess: &mut Session, st: &'r St, first: Value) {
    let reg: &'r Reg = st;
    let mut guards: Vec<Option<G<'r>>> = (0..sess.maxg).map(|_| None).collect();
    let nt = sess.nt;
    let mut a = first;
    loop {
        let op = a["op"].as_str().unwrap().to_string();
        let res = match op.as_str() {
            "acquire" => {
                let t = a["t"].as_str().unwrap();
                let d = a["d"].as_u64().unwrap() as usize;
                let f = a["f"].as_str().unwrap();
                let slot = match guards.iter().position(|g| g.is_none()) {
                    Some(s) => s,
                    None => {
                        sess.emit(reg, &a, r("no_free_slot", NOVAL, nt));
                        match sess.next(reg) {
                            Some(n) => {
                                a = n;
                                continue;
                            }
                            None => return,
                        }
                    }
                };
                let cell = innermost(reg, t, d);
                let got = if f.starts_with("state.") {
                    assert!(d == 0, "accessors exist on State only");
                    acquire_accessor(st, f)
                } else if is_value_form("acquire", f) {
                    with_value_type!(t, T => acquire_value::<T>(ancestor(reg, d), f))
                } else {
                    with_type!(t, T => acquire::<T>(ancestor(reg, d), f))
                };
                match got {
                    Err(_) => r("panic", NOVAL, nt),
                    Ok(Err(kind)) => r(kind, NOVAL, nt),
                    Ok(Ok(g)) => {
                        let value = g.value();
                        let k = if matches!(g, G::Ex(_)) { "ex" } else { "sh" };
                        sess.guards[slot] = Some(GuardMeta { i: cell, t: t.to_string(), k, value });
                        guards[slot] = Some(g);
                        r("ok", value as i64, nt)
                    }
                }
            }
            "release" => {
                let g = a["v"].as_u64().unwrap() as usize - 1;
                guards[g] = None;
                sess.guards[g] = None;
                r("ok", NOVAL, nt)
            }
            "read_via" => {
                let g = a["v"].as_u64().unwrap() as usize - 1;
                // a dead slot can only be addressed after the run has already diverged from the spec
                match guards[g].as_ref() {
                    Some(x) => r("ok", x.value() as i64, nt),
                    None => r("dead_guard", NOVAL, nt),
                }
            }
            "write_via" => {
                let g = a["v"].as_u64().unwrap() as usize - 1;
                let w = a["w"].as_u64().unwrap() as u32;
                match guards[g].as_mut() {
                    Some(G::Ex(x)) => {
                        let old = x.val();
                        x.put(w);
                        sess.guards[g].as_mut().unwrap().value = w;
                        r("ok", old as i64, nt)
                    }
                    _ => r("dead_guard", NOVAL, nt),
                }
            }
            "read" | "write" if a["f"].as_str().unwrap().starts_with("state.") => {
                let v = if op == "write" { Some(a["v"].as_u64().unwrap() as u32) } else { None };
                use_accessor(st, a["f"].as_str().unwrap(), v, nt)
            }
            _ => match exec_shared(reg, &a, nt) {
                Some(res) => res,
                None => {
                    // (guards can be left only if the run has already diverged from the spec)
                    for m in sess.guards.iter_mut() {
                        *m = None;
                    }
                    sess.pending = Some(a);
                    return;
                }
            },
        };
        sess.emit(reg, &a, res);
        a = match sess.next(reg) {
            Some(a) => a,
            None => {
                // end of the stream: guards are dropped silently
                for m in sess.guards.iter_mut() {
                    *m = None;
                }
                return;
            }
        };
    }
}

fn is_shared(op: &str) -> bool {
    matches!(op, "acquire" | "release" | "read_via" | "write_via" | "contains" | "contains_at_top" | "read" | "write" | "set_value")
}

#[macro_export]
macro_rules! multi_arm_impl {
    ($reg:expr, $vs:expr, $f:expr, $nt:expr; $($x:ident : $T:ident),+) => {{
        let reg: &mut Reg = $reg;
        let vs: &[u32] = $vs;
        if $f == "tuple_distinct" {
            // the tuple trait's own predicate
            let d = <($($T),+) as mahf::state::registry::MultiStateTuple>::distinct();
            r("bool", d as i64, $nt)
        } else {
        let outcome: Result<Result<i64, mahf::StateError>, String> = {
            // every public entry point: the panicking and the checked registry method, and the (safe, public)
            // method of the tuple trait itself
            let got = match $f {
                "get_multiple_mut" => $crate::util::caught(|| Ok(reg.get_multiple_mut::<($($T),+)>())),
                "try_get_multiple_mut" => Ok(reg.try_get_multiple_mut::<($($T),+)>()),
                "tuple_try_get_mut" => Ok(<($($T),+) as mahf::state::registry::MultiStateTuple>::try_get_mut(reg)),
                other => panic!("unknown multi-borrow form {other}"),
            };
            match got {
                Err(p) => Err(p),
                Ok(Err(e)) => Ok(Err(e)),
                Ok(Ok(($($x),+))) => {
                    let ptrs: Vec<usize> = vec![$($x as *mut $T as usize),+];
                    let mut distinct = true;
                    for i in 0..ptrs.len() {
                        for j in 0..i {
                            distinct &= ptrs[i] != ptrs[j];
                        }
                    }
                    // (aliasing references are reported, never written through)
                    if distinct {
                        let mut k = 0;
                        $( $x.put(vs[k]); k += 1; )+
                        let _ = k;
                    }
                    Ok(Ok(distinct as i64))
                }
            }
        };
        match outcome {
            Err(_) => r("panic", $crate::util::NOVAL, $nt),
            Ok(Err(e)) => r(err_kind(&e), $crate::util::NOVAL, $nt),
            Ok(Ok(distinct)) => {
                // read every written value back through an ordinary lookup from the same view
                let mut k = 0;
                let mut back = true;
                $( back &= reg.try_borrow::<$T>().map(|g| g.val() == vs[k]).unwrap_or(false); k += 1; )+
                let _ = k;
                r("ok", (distinct == 1 && back) as i64, $nt)
            }
        }
        }
    }};
}
pub use multi_arm_impl as multi_arm;

fn run_body(sess: &mut Session, state: &mut St, in_hold: bool) -> Option<(Value, bool)> {
    loop {
        let a = match sess.next(state) {
            Some(a) => a,
            None => return None,
        };
        let op = a["op"].as_str().unwrap().to_string();
        let nt = sess.nt;
        if is_shared(&op) {
            guard_phase(sess, state, a);
            continue;
        }
        match op.as_str() {
            "multi" => {
                let ts: Vec<String> = a["ts"].as_array().unwrap().iter().map(|x| x.as_str().unwrap().to_string()).collect();
                let vs: Vec<u32> = a["vs"].as_array().unwrap().iter().map(|x| x.as_u64().unwrap() as u32).collect();
                let f = a["f"].as_str().unwrap();
                let d = a["d"].as_u64().unwrap() as usize;
                let key = ts.join(",");
                let res = multi_gen::dispatch(ancestor_mut(&mut **state, d), &key, &vs, f, nt)
                    .unwrap_or_else(|| panic!("tuple {key} not instantiated"));
                sess.emit(state, &a, res);
            }
            "hold_enter" => {
                let t = a["t"].as_str().unwrap().to_string();
                let cell = innermost(state, &t, 0);
                let mut entered = false;
                let mut exit: Option<(Value, bool, i64)> = None;
                let result = with_type!(t.as_str(), T => state.holding::<T>(|tref, st| {
                    entered = true;
                    let old = tref.val() as i64;
                    sess.held.push(HeldMeta { t: t.clone(), i: cell, ptr: tref as *mut T as *mut dyn Valued });
                    sess.emit(st, &a, r("ok", old, nt));
                    let end = run_body(sess, st, true);
                    let v = tref.val() as i64;
                    sess.held.pop();
                    match end {
                        Some((exit_act, ok)) => {
                            exit = Some((exit_act, ok, v));
                            if ok { Ok(()) } else { Err(eyre::eyre!("body failed")) }
                        }
                        // the stream ended inside the body: leave silently, nothing is logged
                        None => Ok(()),
                    }
                }));
                if !entered {
                    let kind = match &result {
                        Err(e) => e.downcast_ref::<StateError>().map(err_kind).unwrap_or("err"),
                        Ok(()) => "ok_without_body",
                    };
                    sess.emit(state, &a, r(kind, NOVAL, nt));
                } else if let Some((exit_act, _, v)) = exit {
                    let kind = if result.is_ok() { "ok" } else { "err" };
                    sess.emit(state, &exit_act, r(kind, v, nt));
                } else {
                    return None;
                }
            }
            "inner" => {
                // with_inner_state: the closure inserts t := v into the child scope, checks what it sees, returns Ok / Err
                let t = a["t"].as_str().unwrap().to_string();
                let v = a["v"].as_u64().unwrap() as u32;
                let fail = a["f"].as_str().unwrap() == "fail";
                let mut seen_inside = NOVAL;
                let result = crate::util::caught(std::panic::AssertUnwindSafe(|| {
                    with_type!(t.as_str(), T => state.with_inner_state(|inner| {
                        inner.insert(T::mk(v));
                        seen_inside = inner.try_borrow::<T>().map(|x| x.val() as i64).unwrap_or(NOVAL);
                        if fail { Err(eyre::eyre!("inner run failed")) } else { Ok(()) }
                    }).map(|child| with_type!(t.as_str(), U => child.try_borrow::<U>().map(|x| x.val() as i64).unwrap_or(NOVAL))))
                }));
                let res = match result {
                    Err(_) => r("panic", NOVAL, nt),
                    Ok(Err(_)) => r("err", seen_inside, nt),
                    // the returned child holds what the closure inserted, and the closure saw it
                    Ok(Ok(child_v)) => r("ok", if child_v == seen_inside { child_v } else { NOVAL }, nt),
                };
                sess.emit(state, &a, res);
            }
            "hold_write" if !in_hold => sess.emit(state, &a, r("not_holding", NOVAL, nt)),
            "hold_exit" if !in_hold => sess.emit(state, &a, r("not_holding", NOVAL, nt)),
            "hold_write" => {
                let v = a["v"].as_u64().unwrap() as u32;
                let h = sess.held.last().unwrap();
                let old = unsafe {
                    let old = (*h.ptr).val();
                    (*h.ptr).put(v);
                    old
                };
                sess.emit(state, &a, r("ok", old as i64, nt));
            }
            "hold_exit" => {
                let ok = a["f"].as_str().unwrap() == "ok";
                return Some((a, ok));
            }
            _ => {
                let res = exec(&mut **state, &a, nt);
                sess.emit(state, &a, res);
            }
        }
    }
}

// ---------------------------------------------------------------------------------------------

struct RandomSrc {
    rng: ChaCha8Rng,
    left: u64,
    nt: usize,
    nvals: u32,
    maxdepth: usize,
    maxhold: usize,
}

impl Source for RandomSrc {
    fn next(&mut self, info: &Info) -> Option<Value> {
        if self.left == 0 {
            return None;
        }
        self.left -= 1;
        let rng = &mut self.rng;
        let nt = self.nt;
        let t = universe()[rng.gen_range(0..universe().len())];
        // (a Log has one abstract value only)
        let v = if t == "Log" { 0 } else { rng.gen_range(0..self.nvals) as i64 };
        let d = if rng.gen_bool(0.6) { 0 } else { rng.gen_range(0..info.depth) };
        let e = json!([]);
        // the convenience accessors of State that concern type t
        let acc: Vec<&'static str> = ACCESSORS.iter().filter(|(_, ty, _, _)| *ty == t).map(|(f, _, _, _)| *f).collect();
        let acc_guard: Vec<&'static str> =
            ACCESSORS.iter().filter(|(_, ty, g, _)| *ty == t && *g).map(|(f, _, _, _)| *f).collect();
        let acc_ex: Vec<&'static str> =
            ACCESSORS.iter().filter(|(_, ty, _, x)| *ty == t && *x).map(|(f, _, _, _)| *f).collect();
        let shared = |rng: &mut ChaCha8Rng| -> Value {
            loop {
                match rng.gen_range(0..100) {
                    0..=34 if info.free_slots > 0 => {
                        if !acc_guard.is_empty() && rng.gen_bool(0.4) {
                            return bact("acquire", t, NOVAL, NOVAL, 0, acc_guard.choose(rng).unwrap(), json!([]), json!([]));
                        }
                        let f = *forms_for(t, "acquire", &["try_borrow", "try_borrow_value", "try_borrow_mut", "try_borrow_value_mut",
                                  "borrow", "borrow_value", "borrow_mut", "borrow_value_mut"]).choose(rng).unwrap();
                        return bact("acquire", t, NOVAL, NOVAL, d, f, json!([]), json!([]));
                    }
                    35..=54 if !info.live.is_empty() => {
                        let (g, _) = *info.live.choose(rng).unwrap();
                        return bact("release", "-", g as i64, NOVAL, 0, "-", json!([]), json!([]));
                    }
                    55..=62 if !info.live.is_empty() => {
                        let (g, _) = *info.live.choose(rng).unwrap();
                        return bact("read_via", "-", g as i64, NOVAL, 0, "-", json!([]), json!([]));
                    }
                    63..=72 => {
                        let ex: Vec<_> = info.live.iter().filter(|(_, k)| *k == "ex").collect();
                        if let Some((g, _)) = ex.choose(rng) {
                            // (the value written must be one the guarded type can carry)
                            let w = if info.live_types.iter().any(|(s, ty)| s == g && ty == "Log") { 0 } else { v };
                            return bact("write_via", "-", *g as i64, w, 0, "-", json!([]), json!([]));
                        }
                    }
                    73..=82 => {
                        if !acc.is_empty() && rng.gen_bool(0.5) {
                            return bact("read", t, NOVAL, NOVAL, 0, acc.choose(rng).unwrap(), json!([]), json!([]));
                        }
                        return bact("read", t, NOVAL, NOVAL, d, forms_for(t, "read", &READ_FORMS).choose(rng).unwrap(), json!([]), json!([]));
                    }
                    83..=90 => {
                        if !acc_ex.is_empty() && rng.gen_bool(0.5) {
                            return bact("write", t, v, NOVAL, 0, acc_ex.choose(rng).unwrap(), json!([]), json!([]));
                        }
                        return bact("write", t, v, NOVAL, d, forms_for(t, "write", &WRITE_FORMS).choose(rng).unwrap(), json!([]), json!([]));
                    }
                    91..=96 if is_value_type(t) => return bact("set_value", t, v, NOVAL, d, "-", json!([]), json!([])),
                    97..=99 => return bact("contains", t, NOVAL, NOVAL, d, "-", json!([]), json!([])),
                    _ => {}
                }
            }
        };
        if !info.live.is_empty() {
            return Some(shared(rng));
        }
        Some(match rng.gen_range(0..100) {
            0..=29 => shared(rng),
            30..=44 => {
                // multi-borrow
                let f = *["try_get_multiple_mut", "try_get_multiple_mut", "tuple_try_get_mut", "tuple_try_get_mut",
                          "get_multiple_mut", "tuple_distinct"].choose(rng).unwrap();
                let key = loop {
                    let k = multi_gen::KEYS[rng.gen_range(0..multi_gen::KEYS.len())];
                    if k.split(',').all(|x| universe().contains(&x)) {
                        break k;
                    }
                };
                let ts: Vec<&str> = key.split(',').collect();
                let vs: Vec<u32> = ts.iter().map(|_| rng.gen_range(0..self.nvals)).collect();
                bact("multi", "-", NOVAL, NOVAL, d, f, json!(ts), json!(vs))
            }
            45..=53 if info.held < self.maxhold => bact("hold_enter", t, NOVAL, NOVAL, 0, "-", e.clone(), e),
            54..=56 => bact("inner", t, v, NOVAL, 0, if rng.gen_bool(0.5) { "ok" } else { "fail" }, e.clone(), e),
            57..=63 if info.held > 0 => {
                bact("hold_write", "-", if info.held_top_is_log { 0 } else { v }, NOVAL, 0, "-", e.clone(), e)
            }
            64..=75 if info.held > 0 => {
                bact("hold_exit", "-", NOVAL, NOVAL, 0, if rng.gen_bool(0.5) { "ok" } else { "fail" }, e.clone(), e)
            }
            _ => loop {
                let a = lift(random_act(rng, info.depth, nt, self.nvals, self.maxdepth));
                let op = a["op"].as_str().unwrap();
                if is_shared(op) {
                    continue;
                }
                if op == "pop" && !info.min_poppable {
                    continue;
                }
                break a;
            },
        })
    }
}

fn reset_rec(run: u64, nt: usize, maxg: usize) -> Value {
    let guards: Vec<Value> = (0..maxg).map(|_| json!({"i": 0, "t": "-", "k": "-"})).collect();
    json!({"run": run, "act": bact("reset", "-", NOVAL, NOVAL, 0, "-", json!([]), json!([])), "res": r("ok", NOVAL, nt),
           "scopes": [empty_map(nt)], "guards": guards, "held": []})
}

fn session(out: &mut Out, run: u64, nt: usize, maxg: usize, src: Box<dyn Source>) {
    out.emit(&reset_rec(run, nt, maxg));
    let mut state: St = State::new();
    let mut sess = Session {
        src,
        out,
        run,
        i: 0,
        nt,
        maxg,
        pending: None,
        last: Value::Null,
        guards: (0..maxg).map(|_| None).collect(),
        held: Vec::new(),
    };
    match caught(std::panic::AssertUnwindSafe(|| run_body(&mut sess, &mut state, false))) {
        Ok(end) => assert!(end.is_none(), "hold_exit outside a holding body"),
        Err(m) => {
            // a panic outside the accessors that are allowed to panic (or inside the projection, because the call left
            // the state unusable): data, not a tool error -- the record matches no action of the model and the run ends
            for g in sess.guards.iter_mut() {
                if let Some(g) = g.take() {
                    std::mem::forget(g);
                }
            }
            let rec = json!({"run": sess.run, "i": sess.i, "act": sess.last, "res": {"k": "crash", "v": NOVAL, "m": empty_map(nt)},
                             "error": m, "scopes": [], "guards": [], "held": []});
            sess.out.emit(&rec);
        }
    }
}

/// (accessor, the type it looks up, returns a guard, exclusive)
const ACCESSORS: [(&str, &str, bool, bool); 8] = [
    ("state.iterations", "Iterations", false, false),
    ("state.evaluations", "Evaluations", false, false),
    ("state.best_individual", "BestIndividual", true, false),
    ("state.best_objective_value", "BestIndividual", false, false),
    ("state.populations", "Populations", true, false),
    ("state.populations_mut", "Populations", true, true),
    ("state.random_mut", "Random", true, true),
    ("state.log", "Log", true, false),
];

pub fn main(args: &Args) -> usize {
    let nt = set_universe(args).len();
    let maxg = args.num("maxg", 2) as usize;
    let mut out = Out::create(&args.str("out"));
    match args.mode.as_str() {
        "replay" => {
            for sc in read_ndjson(&args.str("in")) {
                let run = sc["run"].as_u64().unwrap();
                let acts = sc["acts"].as_array().unwrap().clone();
                session(&mut out, run, nt, maxg, Box::new(Replay { acts, pos: 0 }));
            }
        }
        "random" => {
            let runs = args.num("n", 20);
            for run in 0..runs {
                let src = RandomSrc {
                    rng: rng(args.seed(), run),
                    left: args.num("len", 500),
                    nt,
                    nvals: args.num("vals", 3) as u32,
                    maxdepth: args.num("maxdepth", 3) as usize,
                    maxhold: args.num("maxhold", 3) as usize,
                };
                session(&mut out, run, nt, maxg, Box::new(src));
            }
        }
        other => panic!("unknown mode {other}"),
    }
    out.finish()
}
