//! Instrumented problems for whole-run observation: every objective call is counted and its value
//! recorded; `pure` computes the same value without touching the instrumentation (used for the
//! freshness predicate obj == f(sol)).
use std::{
    ops::Range,
    sync::{
        atomic::{AtomicU64, Ordering},
        Arc, Mutex,
    },
};

use mahf::{
    problems::{
        KnownOptimumProblem, LimitedVectorProblem, ObjectiveFunction, Problem, TravellingSalespersonProblem,
        VectorProblem,
    },
    SingleObjective,
};

#[derive(Default)]
pub struct Stats {
    pub calls: AtomicU64,
    /// every value the objective function returned, in call order (bit patterns)
    pub values: Mutex<Vec<u64>>,
    /// optional scripted delay per call (microseconds), to perturb completion order under rayon
    pub jitter: AtomicU64,
    /// when switched on: (thread, 0 = start / 1 = end, solution) of every objective call, in observed order
    pub log_events: std::sync::atomic::AtomicBool,
    pub events: Mutex<Vec<(u64, u8, String)>>,
}

fn thread_key() -> u64 {
    use std::hash::{Hash, Hasher};
    let mut h = std::collections::hash_map::DefaultHasher::new();
    std::thread::current().id().hash(&mut h);
    h.finish()
}

impl Stats {
    pub fn record(&self, v: f64) {
        let n = self.calls.fetch_add(1, Ordering::SeqCst);
        let j = self.jitter.load(Ordering::Relaxed);
        if j > 0 {
            // deterministic pseudo-random delay derived from the value and call number
            let d = (v.to_bits() ^ n.wrapping_mul(0x9E37_79B9_7F4A_7C15)) % (j + 1);
            if d % 3 == 0 {
                std::thread::yield_now();
            } else {
                std::thread::sleep(std::time::Duration::from_micros(d));
            }
        }
        self.values.lock().unwrap().push(v.to_bits());
    }
    pub fn enter(&self, sol: impl FnOnce() -> String) {
        if self.log_events.load(Ordering::Relaxed) {
            self.events.lock().unwrap().push((thread_key(), 0, sol()));
        }
    }
    pub fn leave(&self, sol: impl FnOnce() -> String) {
        if self.log_events.load(Ordering::Relaxed) {
            self.events.lock().unwrap().push((thread_key(), 1, sol()));
        }
    }
    pub fn calls(&self) -> u64 {
        self.calls.load(Ordering::SeqCst)
    }
    pub fn min(&self) -> Option<f64> {
        self.values.lock().unwrap().iter().map(|b| f64::from_bits(*b)).fold(None, |m, v| match m {
            None => Some(v),
            Some(m) => Some(if v < m { v } else { m }),
        })
    }
}

pub trait Instrumented: Problem<Objective = SingleObjective> + ObjectiveFunction {
    fn stats(&self) -> &Stats;
    fn pure(&self, solution: &Self::Encoding) -> f64;
    /// a stable textual form of a solution (for interning / digests)
    fn show(solution: &Self::Encoding) -> String;
}

// ------------------------------------------------------------------ real-valued
#[derive(Clone)]
pub struct RealProblem {
    pub lo: f64,
    pub hi: f64,
    pub dim: usize,
    /// 0 = sphere, 1 = shifted multimodal, 2 = plateaus (integer-valued: many exact ties)
    pub kind: u8,
    /// per-dimension domains: dimension j has [lo / (j + 1), hi / (j + 1)]
    pub hetero: bool,
    /// the problem's name (the experiment runner names its log files after it)
    pub label: &'static str,
    pub stats: Arc<Stats>,
}

impl RealProblem {
    pub fn new(kind: u8, dim: usize, lo: f64, hi: f64) -> Self {
        Self { lo, hi, dim, kind, hetero: false, label: "RealProblem", stats: Arc::new(Stats::default()) }
    }
}

impl Problem for RealProblem {
    type Encoding = Vec<f64>;
    type Objective = SingleObjective;
    fn name(&self) -> &str {
        self.label
    }
}
impl VectorProblem for RealProblem {
    type Element = f64;
    fn dimension(&self) -> usize {
        self.dim
    }
}
impl LimitedVectorProblem for RealProblem {
    fn domain(&self) -> Vec<Range<f64>> {
        if self.hetero {
            (0..self.dim).map(|j| (self.lo / (j as f64 + 1.0))..(self.hi / (j as f64 + 1.0))).collect()
        } else {
            vec![self.lo..self.hi; self.dim]
        }
    }
}
impl KnownOptimumProblem for RealProblem {
    fn known_optimum(&self) -> SingleObjective {
        0.0.try_into().unwrap()
    }
}
impl Instrumented for RealProblem {
    fn stats(&self) -> &Stats {
        &self.stats
    }
    fn pure(&self, x: &Vec<f64>) -> f64 {
        match self.kind {
            0 => x.iter().map(|v| v * v).sum(),
            2 => x.iter().map(|v| (v * 2.0).floor().abs()).sum(),
            // linear with an offset: negative objective values of both small and large magnitude, also -0.0 at the origin
            4 => x.iter().sum::<f64>() - 100.0,
            5 => -(x.iter().map(|v| v * v).sum::<f64>()),
            // sphere on top of a large base cost: on a narrow domain neighbouring solutions differ in the last places of
            // their objective values only
            6 => 1000.0 + x.iter().map(|v| v * v).sum::<f64>(),
            7 => 3.0e6 + x.iter().map(|v| v * v).sum::<f64>(),
            3 => {
                // walled sphere: infeasible (+inf) outside the box of a quarter of the domain width around the origin
                let r = 0.25 * (self.hi - self.lo);
                if x.iter().any(|v| v.abs() > r) { f64::INFINITY } else { x.iter().map(|v| v * v).sum() }
            }
            _ => x.iter().enumerate().map(|(i, v)| (v - 0.25 * (i as f64 + 1.0)).abs() + (3.0 * v).sin().abs() * 0.5).sum(),
        }
    }
    fn show(x: &Vec<f64>) -> String {
        x.iter().map(|v| format!("{:016x}", v.to_bits())).collect::<Vec<_>>().join(",")
    }
}
impl ObjectiveFunction for RealProblem {
    fn objective(&self, x: &Vec<f64>) -> SingleObjective {
        self.stats.enter(|| Self::show(x));
        let v = self.pure(x);
        self.stats.record(v);
        self.stats.leave(|| Self::show(x));
        v.try_into().unwrap()
    }
}

// ------------------------------------------------------------------ bit strings (minimise number of zeros)
#[derive(Clone)]
pub struct BitProblem {
    pub dim: usize,
    /// the problem's name (the experiment runner names its log files after it)
    pub label: &'static str,
    /// 0: number of zeros; 1: every zero costs its position (a weighted count: WHICH bits are set matters)
    pub kind: u8,
    pub stats: Arc<Stats>,
}
impl BitProblem {
    pub fn new(dim: usize) -> Self {
        Self { dim, kind: 0, label: "BitProblem", stats: Arc::new(Stats::default()) }
    }
    pub fn positional(dim: usize) -> Self {
        Self { dim, kind: 1, label: "BitProblem", stats: Arc::new(Stats::default()) }
    }
}
impl Problem for BitProblem {
    type Encoding = Vec<bool>;
    type Objective = SingleObjective;
    fn name(&self) -> &str {
        self.label
    }
}
impl KnownOptimumProblem for BitProblem {
    fn known_optimum(&self) -> SingleObjective {
        0.0.try_into().unwrap()
    }
}
impl VectorProblem for BitProblem {
    type Element = bool;
    fn dimension(&self) -> usize {
        self.dim
    }
}
impl Instrumented for BitProblem {
    fn stats(&self) -> &Stats {
        &self.stats
    }
    fn pure(&self, x: &Vec<bool>) -> f64 {
        if self.kind == 1 {
            return x.iter().enumerate().filter(|(_, b)| !**b).map(|(i, _)| i as f64 + 1.0).sum();
        }
        x.iter().filter(|b| !**b).count() as f64
    }
    fn show(x: &Vec<bool>) -> String {
        x.iter().map(|b| if *b { '1' } else { '0' }).collect()
    }
}
impl ObjectiveFunction for BitProblem {
    fn objective(&self, x: &Vec<bool>) -> SingleObjective {
        self.stats.enter(|| Self::show(x));
        let v = self.pure(x);
        self.stats.record(v);
        self.stats.leave(|| Self::show(x));
        v.try_into().unwrap()
    }
}

// ------------------------------------------------------------------ permutations / TSP
#[derive(Clone)]
pub struct TspProblem {
    pub dim: usize,
    /// 5: the objective is NOT a round trip: weighted completion times of a schedule (position-dependent, not even
    /// rotation invariant); the distances are those of kind 1
    pub kind: u8,
    pub dist: Vec<Vec<f64>>,
    /// the problem's name (the experiment runner names its log files after it)
    pub label: &'static str,
    pub stats: Arc<Stats>,
}
impl TspProblem {
    /// kind 0: points on a line (symmetric); 1: asymmetric; 2: very unequal distances (1e-3 .. 1e6);
    /// 3: one very remote city (1e120 from everything else: (1/d)^beta underflows for beta = 5); 4: one missing edge
    pub fn new(kind: u8, dim: usize) -> Self {
        let mut dist = vec![vec![0.0; dim]; dim];
        for i in 0..dim {
            for j in 0..dim {
                if i == j {
                    continue;
                }
                let (a, b) = (i.min(j) as f64, i.max(j) as f64);
                dist[i][j] = match kind {
                    0 => (b - a) + 0.125 * ((a * 7.0 + b * 3.0) % 5.0),
                    1 | 5 => 1.0 + ((i * 5 + j * 11) % 7) as f64 + if i < j { 0.5 } else { 0.0 },
                    2 => 10f64.powi(((i * 3 + j * 3 + a as usize) % 10) as i32 - 3),
                    // a missing road: no edge between the cities 1 and 2 (infinite distance)
                    4 if (i.min(j), i.max(j)) == (1, 2) => f64::INFINITY,
                    4 => 1.0 + (b - a),
                    _ => {
                        if i == dim - 1 || j == dim - 1 {
                            1e120
                        } else {
                            1.0 + (b - a)
                        }
                    }
                };
            }
        }
        Self { dim, kind, dist, label: "TspProblem", stats: Arc::new(Stats::default()) }
    }
}
impl Problem for TspProblem {
    type Encoding = Vec<usize>;
    type Objective = SingleObjective;
    fn name(&self) -> &str {
        self.label
    }
}
impl KnownOptimumProblem for TspProblem {
    /// (a lower bound: no tour is shorter)
    fn known_optimum(&self) -> SingleObjective {
        0.0.try_into().unwrap()
    }
}
impl VectorProblem for TspProblem {
    type Element = usize;
    fn dimension(&self) -> usize {
        self.dim
    }
}
impl TravellingSalespersonProblem for TspProblem {
    fn distance(&self, edge: (usize, usize)) -> f64 {
        self.dist[edge.0][edge.1]
    }
}
impl Instrumented for TspProblem {
    fn stats(&self) -> &Stats {
        &self.stats
    }
    fn pure(&self, x: &Vec<usize>) -> f64 {
        if self.kind == 5 {
            // jobs in the order x, job j takes j + 1 time units and has weight (3 j + 2) mod 5 + 1:
            // sum of weighted completion times (every position counts)
            let mut t = 0.0;
            let mut s = 0.0;
            for j in x {
                t += (*j % self.dim) as f64 + 1.0;
                s += ((3 * (*j % self.dim) + 2) % 5 + 1) as f64 * t;
            }
            return s;
        }
        let mut s = 0.0;
        for w in x.windows(2) {
            s += self.dist[w[0] % self.dim][w[1] % self.dim];
        }
        if x.len() > 1 {
            s += self.dist[x[x.len() - 1] % self.dim][x[0] % self.dim];
        }
        s
    }
    fn show(x: &Vec<usize>) -> String {
        x.iter().map(|v| v.to_string()).collect::<Vec<_>>().join(",")
    }
}
impl ObjectiveFunction for TspProblem {
    fn objective(&self, x: &Vec<usize>) -> SingleObjective {
        self.stats.enter(|| Self::show(x));
        let v = self.pure(x);
        self.stats.record(v);
        self.stats.leave(|| Self::show(x));
        v.try_into().unwrap()
    }
}
