"""C15 — experiment records are exact: log entries, log export, configuration export (Logging.tla / Exec.tla)."""
import json, os
import vlib
from checks import c03

MANIFEST = {
    "modules": ["Logging", "Exec", "Trace_Ser", "Trace_Same"],
    "text": "Log: Logging.tla places mahf's own Logger in configurations run by the reference interpreter (Exec.tla) with "
            "a caller-supplied rule set (always / never / every-2 / scripted triggers; K0 / U / iteration / missing sources; "
            "repeated names), given by the LogConfig calls that make it (with / with_auto / with_many / with_common, "
            "expanded by Expand: the shorthand stands for the number of evaluations and the progress of the iterations). "
            "TLC enumerates all programs up to the bound x scripts x 27 rule sets (incl. shadowed stateful triggers, late "
            "triggers that bring new names in later steps, every convenience) and checks "
            "OneStepPerFiringExecution, StepsExact (one entry per fired rule, value at that moment, null for a missing "
            "source, iteration first) and RuleOrderKept against a ghost record of logger executions; every enumerated case "
            "and seeded random ones run on the real code with a real LogConfig, and TLC validates the resulting log three "
            "ways: serialised directly, decoded from to_json and decoded from to_cbor. Configuration export: for every "
            "generated tree TLC requires that to_ron succeeds, that the program can be read back from the name-preserving "
            "serialisation (skeleton = program) and that a clone serialises identically; for all 21 templates over the "
            "parameter grid Trace_Ser.tla requires serialisability, clone identity, and 'same serialisation iff same "
            "template and parameter values' (incl. configurations differing only in an identifier type parameter, shipped "
            "and user-defined with colliding short names; every parameter of every template and of every single-component "
            "pseudo-template changed on its own; every condition over every parameter -- lens and equality checker "
            "included -- in every place a condition can stand) and, for configurations assembled through every entry point "
            "of the builder API from a builder term (build, build_component, Block::new, while_/if_/if_else_/scope_, the "
            "list and single-component constructors of Loop/Branch/Scope, do_many_, do_if_some_, Configuration::new/from/"
            "into_builder/into_inner over lists of 0/1/2 items, nested), 'same serialisation iff same structure Str(term)', "
            "the structure being computed by the specification. Experiment runner: Trace_Same.tla requires configuration.ron to "
            "equal the direct serialisation of the configuration that was run (also when the folder is reused) and each "
            "exported run log to decode to the log of the same run made stand-alone (whose log rules are spelled out "
            "where the runner's set-up uses the with_common shorthand).",
    "technique": "TLA+ spec + TLC exhaustive case enumeration + TLC trace validation of real logs / exports / serialisations",
    "design_ref": "DESIGN.md §6 C15",
    "note": "logger placements without a visible pass counter are excluded (the caller's state holds one); differences only in "
            "type parameters that components do not serialise are not demanded to be visible",
}

INVS = "LTypeOK OneStepPerFiringExecution StepsExact RuleOrderKept"


def cfg_mc(n, l, export):
    return ('SPECIFICATION LSpec\nCONSTANTS\n  LeafVariants = {"ins0", "log", "seed"}\n  MaxStmts = %d\n  MaxScript = %d\n'
            '  MaxFault = 0\nINVARIANT %s\nCHECK_DEADLOCK FALSE\n' % (n, l, "PrintCase" if export else INVS))


RULE = ("cases = (program with Logger placements, condition script, rule set) exported from TLC (all programs up to the "
        "bound x scripts x 27 rule sets, one in three in the quick tier) + seeded random ones, each run on the real code with a real LogConfig; plus the "
        "configuration-export cases; non-trivial = the run produced a non-empty log or ended in error; distinct = distinct cases")

DESCRIBE = dict(c03.DESCRIBE)
DESCRIBE["nontrivial"] = lambda r, before, after: (r["ev"] == "end" and len(r.get("log", [])) > 0) or c03.DESCRIBE["nontrivial"](r, before, after)


def run_logging(ctx):
    q = ctx.quick
    ctx.tlc_mc("MC_Logging", cfg_mc(2, 3, False) if q else cfg_mc(3, 3, False), "mc-logging", workers=4 if q else 8,
               timeout=3000, java_opts=c03.JAVA)
    ex = ctx.tlc_mc("MC_Logging", cfg_mc(2, 3, True), "export-logging", workers=1, timeout=3000, java_opts=c03.JAVA)
    cases, n = c03.export_cases(ctx, ex["out"], "enum-logging", stride=3 if q else 1)
    tr = os.path.join(ctx.work, "enum-logging.trace.ndjson")
    ctx.harness("exec", "replay", **{"in": cases, "out": tr})
    ctx.validate("Trace_Exec", c03.CFG_TRACE, tr, "enum-logging", DESCRIBE, {"driver": "exec"}, timeout=3000)
    tr = os.path.join(ctx.work, "random-logging.trace.ndjson")
    ctx.harness("exec", "random", out=tr, seed=ctx.seed, n=400 if q else 10000, stmts=20, logging=1)
    ctx.validate("Trace_Exec", c03.CFG_TRACE, tr, "random-logging", DESCRIBE, {"driver": "exec"}, timeout=3000)


SER_DESCRIBE = {
    "state": lambda r: r["ser"],
    "act": lambda r: {"t": r["t"], "params": r["params"], "n": r["n"]},
    "is_reset": lambda r: False,
    "nontrivial": lambda r, before, after: True,
}


def T(op, a=(), e=(), v="-"):
    return {"op": op, "v": v, "a": list(a), "e": list(e)}


def struct_terms(quick):
    """Builder terms: every entry point of the builder API (build, build_component, Block::new, while_/if_/if_else_/scope_,
    the constructors of Loop / Branch / Scope taking a list or one component, do_many_, do_if_some_, Configuration::new /
    from / into_builder / into_inner) over item lists of 0, 1 and 2 elements, nested builders included."""
    X, Y = T("leaf", v="A"), T("leaf", v="B")
    lists = [[], [X], [X, Y], [Y, X], [T("bc", [X])], [T("bc")], [X, T("bc", [Y])], [T("bc", [X, Y])], [T("bc", [T("bc", [X])])],
             [T("blocknew", [X])], [T("blocknew")], [T("many", [X, Y])], [T("many")], [T("none"), X], [T("some", [X])],
             [T("many", [X]), T("bc", [Y])]]
    if not quick:
        lists += [[X, X], [T("bc", [X]), T("bc", [Y])], [T("bc", [T("bc")])], [T("blocknew", [T("blocknew", [X])])],
                  [T("while", [X])], [T("scope", [T("bc", [X])])]]
    wrappers = ["bc", "blocknew", "while", "loopvec", "if", "branchvec", "scope", "scopevec"]
    boxes = ["loopbox", "branchbox", "scopebox"]
    singles = [X, Y, T("bc", [X]), T("bc"), T("bc", [X, Y]), T("bc", [T("bc", [X])]), T("blocknew", [X]), T("while", [X]), T("loopbox", [X])]
    terms = [T("build", l) for l in lists]
    for w in wrappers:
        for l in lists:
            terms.append(T("build", [T(w, l)]))
        for l in lists[:6]:
            terms.append(T("confnew", [T(w, l)]))
            terms.append(T("build", [X, T(w, l)]))
    for w in boxes:
        for c in singles:
            terms.append(T("build", [T(w, [c])]))
            terms.append(T("from", [T(w, [c])]))
    for c in singles:
        terms.append(T("confnew", [c]))
        terms.append(T("from", [c]))
    for a in lists[:7]:
        for e in lists[:4] + [[T("bc", [X])]]:
            terms.append(T("build", [T("ifelse", a, e)]))
            terms.append(T("build", [T("branchelsevec", a, e)]))
    for a in singles[:5]:
        for e in singles[:4]:
            terms.append(T("build", [T("branchelsebox", [a], [e])]))
    base = [T("build", l) for l in lists[:8]] + [T("confnew", [c]) for c in singles[:5]]
    for c in base:
        terms.append(T("rebuild", [c]))
        terms.append(T("reinner", [c]))
        terms.append(T("rebuild", [T("rebuild", [c])]))
    return terms


def cond_specs():
    """Conditions over every parameter (one changed at a time, function-like parameters such as the lens and the equality
    checker included) in every place a condition can stand; `via` selects one of two equivalent constructors."""
    base = [("chance", {"p": 0.25}, {"p": [0.5]}),
            ("lt", {"n": 3, "lens": "iterations", "via": "new"}, {"n": [4], "lens": ["evaluations"], "via": ["short"]}),
            ("lt", {"n": 3, "lens": "evaluations", "via": "new"}, {"via": ["short"]}),
            ("every", {"n": 2, "lens": "iterations", "via": "new"}, {"n": [3], "lens": ["evaluations"], "via": ["short"]}),
            ("change", {"checker": "eq", "lens": "iterations"}, {"checker": ["delta:2", "delta:5"], "lens": ["evaluations"]}),
            ("change", {"checker": "delta:2", "lens": "evaluations"}, {"checker": ["delta:5"]}),
            ("optimum", {"epsilon": 0.125}, {"epsilon": [0.25]}),
            ("decomp", {"alpha": 3}, {"alpha": [4]}),
            ("synth", {"beta": 0.125}, {"beta": [0.25]})]
    out = []
    for place in ["while", "if", "ifelse", "not", "and1", "and2", "or1", "nested"]:
        for kind, b, var in base:
            ps = [dict(b)]
            for k, vals in var.items():
                for v in vals:
                    ps.append(dict(b, **{k: v}))
            for p in ps:
                q = dict(p, kind=kind, place=place)
                if q not in out:
                    out.append(q)
    return out


def used(template, k):
    """the `comp:` pseudo-templates share one parameter record; a component reads only some of it"""
    if not template.startswith("comp:"):
        return True
    c = template[5:]
    return (k in ("popsize", "select") or (k == "pc" and "Crossover" in c) or (k == "dev" and c.endswith("_after_eval")) or
            (k == "rm" and (c.endswith("_after_eval") or c in ("NormalMutation", "UniformMutation", "PartialRandomSpread",
                                                              "BitFlipMutation", "PartialRandomBitstring"))))


def perturbed(sp):
    """Every parameter of every template (pseudo-templates of single components included) changed on its own: the first
    parameter set of each template with one value replaced; sets the constructor rejects are skipped (`opt`)."""
    out, seen = [], set()
    for s in sp:
        if s["template"] in seen or not s["params"]:
            continue
        seen.add(s["template"])
        for k, v in s["params"].items():
            if isinstance(v, bool) or not isinstance(v, (int, float)) or not used(s["template"], k):
                continue
            for w in ([v + 1, v + 2] if isinstance(v, int) else [v * 0.5 + 0.0625, v * 0.25 + 0.03125]):
                out.append(dict(s, params=dict(s["params"], **{k: w}), opt=1))
    return out


def run_ser(ctx):
    from checks.templates_grid import specs, component_specs
    sp = specs(ctx.quick, [0], [1, 7])
    have = {json.dumps([s["template"], s["params"], s["n"]], sort_keys=True) for s in sp}
    for s in perturbed(sp) + component_specs(True, [0], [1])[::3] + perturbed(component_specs(True, [0], [1])):
        k = json.dumps([s["template"], s["params"], s["n"]], sort_keys=True)
        if k not in have:
            have.add(k)
            sp.append(dict(s, run=len(sp)))
    REAL2 = {"kind": "real", "f": 0, "dim": 2, "lo": -1.0, "hi": 1.0}
    for t in struct_terms(ctx.quick):
        sp.append({"run": len(sp), "template": "struct", "params": {"term": t}, "n": 1, "seed": 0, "eval": "seq", "prob": REAL2})
    for p in cond_specs():
        sp.append({"run": len(sp), "template": "condp", "params": p, "n": 1, "seed": 0, "eval": "seq", "prob": REAL2})
    # configurations differing only in an identifier type parameter, incl. user-defined ones with colliding short names
    for ident in ["default", "mahf::Global", "mahf::A", "mahf::B", "user::A", "user::nested::A", "user::Global"]:
        sp.append({"run": len(sp), "template": "ident", "params": {"id": ident}, "n": 1, "seed": 0, "eval": "seq",
                   "prob": {"kind": "real", "f": 0, "dim": 2, "lo": -1.0, "hi": 1.0}})
    # configurations that differ only in the logical structure of a condition (and / or / not, nesting, operand order)
    for form in ["a", "!a", "!!a", "b", "a&b", "a|b", "b&a", "(a|b)&c", "(a&b)&c", "a&(b|c)", "(a&b)|c", "!(a&b)", "!a&b"]:
        sp.append({"run": len(sp), "template": "cond", "params": {"c": form}, "n": 1, "seed": 0, "eval": "seq",
                   "prob": {"kind": "real", "f": 0, "dim": 2, "lo": -1.0, "hi": 1.0}})
    spath = os.path.join(ctx.work, "ser.specs.ndjson")
    with open(spath, "w") as f:
        for s in sp:
            f.write(json.dumps(s) + "\n")
    tr = os.path.join(ctx.work, "ser.trace.ndjson")
    ctx.harness("templates", "ser", **{"in": spath, "out": tr})
    ctx.validate("Trace_Ser", "SPECIFICATION TraceSpec\nPOSTCONDITION TraceDone\nCHECK_DEADLOCK FALSE\n", tr, "ser",
                 SER_DESCRIBE, {"driver": "templates-ser"}, max_rejections=6)


EXP_DESCRIBE = {
    "state": lambda r: r.get("digest", ""),
    "act": lambda r: {"ev": r["ev"], "key": r.get("key", ""), "pool": r.get("pool", 0), "rn": r.get("rn", 0)},
    "is_reset": lambda r: False,
    "nontrivial": lambda r, before, after: True,
}


def run_experiments(ctx):
    """The batch experiment runner's records (src/experiments.rs): configuration.ron is the serialisation of the
    configuration that was run (also when a folder is reused for another experiment), and every <problem>_<run>.cbor decodes
    to the log of that very run (reference: the same run made directly)."""
    tr = os.path.join(ctx.work, "exp.trace.ndjson")
    ctx.harness("determinism", "experiments", **{"out": tr, "par-out": os.path.join(ctx.work, "exp.par.ndjson"),
                                                 "seed": ctx.seed, "exp-runs": 3 if ctx.quick else 8})
    ctx.validate("Trace_Same", "SPECIFICATION TraceSpec\nPOSTCONDITION TraceDone\nCHECK_DEADLOCK FALSE\n", tr, "experiments",
                 EXP_DESCRIBE, {"driver": "determinism-experiments"}, timeout=600)


def run(ctx):
    run_logging(ctx)
    run_ser(ctx)
    run_experiments(ctx)
    return ctx.finish(RULE)


def replay(ctx, rp):
    if rp["meta"].get("driver") == "determinism-experiments":
        run_experiments(ctx)
        return ctx.finish(RULE)
    if rp["meta"].get("driver") == "templates-ser":
        bad = rp["first_unmatched"]
        if bad["t"] == "struct":
            bad = dict(bad, params={"term": bad["term"]})
        spath = os.path.join(ctx.work, "replay.specs.ndjson")
        with open(spath, "w") as f:
            f.write(json.dumps({"template": bad["t"], "params": bad["params"], "n": bad["n"], "seed": 0, "eval": "seq",
                                "prob": {"kind": "tsp", "f": 0, "dim": 5} if ("permutation" in bad["t"] or "ant" in bad["t"])
                                else ({"kind": "bits", "dim": 8} if bad["t"] == "binary_ga" else
                                      {"kind": "real", "f": 0, "dim": 2, "lo": -1.0, "hi": 1.0})}) + "\n")
        tr = os.path.join(ctx.work, "replay.trace.ndjson")
        ctx.harness("templates", "ser", **{"in": spath, "out": tr})
        ctx.validate("Trace_Ser", "SPECIFICATION TraceSpec\nPOSTCONDITION TraceDone\nCHECK_DEADLOCK FALSE\n", tr, "replay",
                     SER_DESCRIBE, rp["meta"])
        return ctx.finish(RULE)
    h = rp["header"]
    cases = os.path.join(ctx.work, "replay.cases.ndjson")
    with open(cases, "w") as f:
        f.write(json.dumps({"run": 0, "prog": h["prog"], "script": h["script"], "fault": h["fault"],
                            "rules": h.get("rules", []), "rootit": h.get("rootit", 99)}) + "\n")
    tr = os.path.join(ctx.work, "replay.trace.ndjson")
    ctx.harness("exec", "replay", **{"in": cases, "out": tr})
    ctx.validate("Trace_Exec", c03.CFG_TRACE, tr, "replay", DESCRIBE, rp["meta"])
    return ctx.finish(RULE)
