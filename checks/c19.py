"""C19 — ant-colony generation yields valid tours; pheromone updates are well-formed (Aco.tla, Run.tla clause C19)."""
import vlib
from checks import runlib

MANIFEST = {
    "modules": ["Aco", "Run"],
    "text": "Aco.tla models tour generation and both pheromone updates over a symmetric matrix of trail levels: TLC checks "
            "for EVERY level pattern of a 4-city matrix that the greedy construction yields a permutation of all cities "
            "from city 0, is greedy at every step, that sampled tours are tours, and that an update lowers every "
            "non-reinforced trail, raises exactly the edges between consecutive cities of the rewarded sampled tours (never "
            "the closing edge, never the greedy tour) and keeps levels within bounds. Binding: ant_system and "
            "max_min_ant_system run (through the cfg(mahf_verif) constructors) over instance sizes, symmetric / asymmetric / "
            "very unequal distances, ant counts, alpha/beta and long iteration counts; after every component TLC (Run.tla "
            "clause C19) requires: tours are permutations from city 0, the first one greedy w.r.t. the current matrix, every "
            "cell = (1 - rho) * old + deposits within 1e-9 relative, matrix symmetric, finite, non-negative and, for the "
            "max-min variant, every trail within [min, max].",
    "technique": "TLA+ spec + TLC model checking + TLC trace validation of step-observer traces (float facts as harness predicates)",
    "design_ref": "DESIGN.md §6 C19, §4.2",
    "note": "cell_ok / bounds / sym / finite / perm_ok / greedy_ok are evaluated in f64 by the harness; default pheromone level is chosen inside the bounds",
}

RULE = ("cases = every component step of ant_system / max_min_ant_system runs over the grid (plus every trail-level pattern of "
        "the bounded Aco model); non-trivial = the step changed the projected state; distinct = distinct (state before, component) pairs")


def run(ctx):
    q = ctx.quick
    ctx.tlc_mc("Aco", "SPECIFICATION ASpec\nCONSTANTS\n  D = 4\n  Levels = {1, 2, 3}\n  Ants = %d\nINVARIANT ToursValid GreedyIsGreedy "
               "WithinLevels\nPROPERTY ReinforcedExactly\nCHECK_DEADLOCK FALSE\n" % (1 if q else 2), "mc-aco",
               workers=4 if q else 10, timeout=3000)
    runlib.run_templates(ctx, ["C19"], seeds=[ctx.seed, ctx.seed + 1, ctx.seed + 2] if q else list(range(ctx.seed, ctx.seed + 5)),
                         iters=[0, 1, 8, 60] if q else [1, 8, 60, 400], templates=["ant_system", "max_min_ant_system"],
                         quick_grid=False)
    return ctx.finish(RULE)


def replay(ctx, rp):
    runlib.replay(ctx, rp, ["C19"])
    return ctx.finish(RULE)
