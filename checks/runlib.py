"""Shared by C05/C06/C07/C16 (and the template-level parts of C17/C18/C19/C20): template runs under the step
observer, validated against spec/Run.tla with the clauses of one property switched on."""
import json, os
import vlib
from checks.templates_grid import specs


def cfg_trace(clauses, known=()):
    q = lambda xs: ", ".join('"%s"' % c for c in xs)
    return ('SPECIFICATION TraceSpec\nCONSTANTS\n  Clauses = {%s}\n  Known = {%s}\nPOSTCONDITION TraceDone\n'
            'CHECK_DEADLOCK FALSE\n' % (q(clauses), q(known)))


def _state(r):
    return [r.get("h"), r.get("sizes"), r.get("topr"), r.get("evals"), r.get("best"), r.get("sd")]


DESCRIBE = {
    "state": _state,
    "act": lambda r: {"ev": r["ev"], "name": r.get("name", ""), "role": r.get("role", ""), "t": r.get("t", r.get("template"))},
    "is_reset": lambda r: r["ev"] == "start",
    # non-trivial: the component changed the projected state (stack, sizes, ranks of the top population,
    # evaluation counter, best) — or the run ended
    "nontrivial": lambda r, before, after: r["ev"] == "end" or (r["ev"] == "step" and before != after),
}


def check_effects(ctx, trace_path):
    """Every component name occurring in the runs must have an entry in spec/effects.json (tool error otherwise)."""
    eff = json.load(open(os.path.join(vlib.SPEC, "effects.json")))
    names = set()
    for line in open(trace_path):
        r = json.loads(line)
        if r.get("ev") == "step":
            names.add(r["name"])
    unknown = sorted(n for n in names if n not in eff and n not in ("Block", "Loop", "Branch", "Scope"))
    if unknown:
        raise vlib.ToolError("component names without an entry in spec/effects.json: %s" % unknown)
    return names


def run_templates(ctx, clauses, seeds, iters, name="runs", quick_grid=None, templates=None, evals=("seq",), components=False,
                  extra_specs=None, more_specs=()):
    if extra_specs is not None:
        sp = extra_specs
    elif components:
        from checks.templates_grid import component_specs
        sp = component_specs(ctx.quick, seeds, iters)
    else:
        sp = specs(ctx.quick if quick_grid is None else quick_grid, seeds, iters)
    if templates:
        sp = [s for s in sp if s["template"] in templates]
    sp = sp + list(more_specs)     # property-specific runs that are not part of the shared grid
    out = []
    for s in sp:
        for e in evals:
            t = dict(s, eval=e, run=len(out))
            out.append(t)
    spath = os.path.join(ctx.work, name + ".specs.ndjson")
    with open(spath, "w") as f:
        for s in out:
            f.write(json.dumps(s) + "\n")
    tr = os.path.join(ctx.work, name + ".trace.ndjson")
    ctx.harness("templates", "runs", **{"in": spath, "out": tr})
    names = check_effects(ctx, tr)
    ok = ctx.validate("Trace_Run", cfg_trace(clauses, ctx.known_ids()), tr, name, DESCRIBE,
                      {"driver": "templates", "clauses": list(clauses)}, timeout=3000, max_rejections=12)
    return tr, names, len(out)


def replay(ctx, rp, clauses):
    h = dict(rp["header"])
    for k in ("tree", "ev", "ctor", "ctor_error"):
        h.pop(k, None)
    h["run"] = 0
    spath = os.path.join(ctx.work, "replay.specs.ndjson")
    with open(spath, "w") as f:
        f.write(json.dumps(h) + "\n")
    tr = os.path.join(ctx.work, "replay.trace.ndjson")
    ctx.harness("templates", "runs", **{"in": spath, "out": tr})
    ctx.validate("Trace_Run", cfg_trace(clauses, ctx.known_ids()), tr, "replay", DESCRIBE, rp["meta"])
