"""C09 — objective values are never NaN/-inf and are ordered soundly; Pareto dominance (spec/Objective.tla)."""
import glob, json, os, re
import vlib

MANIFEST = {
    "modules": ["Objective"],
    "text": "TLC checks on the abstract carrier {NaN,-inf} U integers U {+inf} (Objective.tla) that the closure of the "
            "whole public SingleObjective/MultiObjective API keeps `Legal` (no NaN/-inf obtainable), that comparison is "
            "the total numeric order (TotalOrder, CmpSound), that sort/min/max never fail and are correct, and that "
            "MultiObjective comparison is Pareto dominance with its laws over all pairs/triples of model vectors "
            "(ParetoSound, ParetoLaws). Every transition of the bounded model is replayed with exact floats on the "
            "real types, and a float grid (zeros, subnormals, extremes, infinities, NaN payloads) plus random bit "
            "patterns is driven through construction, all-pairs comparison, sort/min/max, arithmetic and Pareto "
            "comparison; TLC validates every recorded call (arguments, reply, set of obtained values). Equality is "
            "tied to the numeric value in everything built on it (EqualityExact: ==/!= against cmp, Vec::dedup raw and "
            "after sorting, contains/position, binary search), and clusters of adjacent floats (1 and 2 "
            "representable steps apart, both signs, around zero, subnormals, the subnormal/normal border, tiny and "
            "huge normal values, binade borders, around 1.0, f64::MAX, plus seeded random bit patterns) are compared "
            "in all pairs with all eight forms, sorted, deduplicated, searched with and without the value present, "
            "and used as components of Pareto-compared vectors. Arithmetic on operands of extreme magnitude is "
            "judged by VALUE (mode sci): floats with at most 9 significant bits over the whole exponent range of f64 "
            "(smallest subnormals, f64::MIN_POSITIVE, square roots of the extremes, the binades next to f64::MAX) are "
            "named by an order-preserving integer from which the spec recovers exponent and significand and computes "
            "every sum, difference, product and quotient itself (exact result, round to nearest / ties to even at "
            "2^-1074, overflow; a finite result with more significant bits is judged by its sign). TLC checks that "
            "this lattice arithmetic is correctly rounded arithmetic over all pairs of values of four small formats "
            "(SciLaws, stated on scaled integers) and the algebraic identities x*1, x/1, x/x, x-x, x+x=2x, x/2=x*0.5 "
            "over f64's range (SciIdentities); every transition of the model over 13 extreme operands is replayed, and "
            "a systematic sweep (41 objectives x 64 scalars, neg / add / sub / mul / div) plus seeded chains of "
            "operations are validated record by record, so a quotient or product that is legal numerically but comes "
            "out NaN, infinite or differently rounded through another operation order is rejected. The ideal "
            "arithmetic never hands out an illegal value; the derived operators of the code do — one known finding "
            "per (operator, operand classes), accepted only with exactly the IEEE result.",
    "technique": "TLA+ spec + TLC model checking + TLC trace validation of replayed transition tours and seeded float-grid runs",
    "design_ref": "DESIGN.md §6 C09",
    "note": "arithmetic on arbitrary floats is judged by class (sound class-level IEEE table AbsOp, linked to the exact "
            "model by AbsSound); order facts on arbitrary floats go through the dense-rank projection; arithmetic is "
            "judged by value on small integers (mode exact) and on the 9-bit lattice over f64's exponent range (mode "
            "sci; scalars -0.0 and sums of operands 53 or 54 binades apart stay at class level)",
}

PROPS = "LegalReplies ConstructionExact CmpSound SortMinMaxSound EqualityExact ParetoSound"
INF = 1000000


def consts(m, b, maxlist, vecdom, maxvec, sci=(), scineg=()):
    return ("CONSTANTS\n  M = %d\n  B = %d\n  MaxList = %d\n  VecDom = {%s}\n  MaxVec = %d\n  SciIn = {%s}\n"
            "  SciNeg = {%s}\n" % (m, b, maxlist, ", ".join(map(str, vecdom)), maxvec,
                                  ", ".join(map(str, sci)), ", ".join(map(str, scineg))))


def cfg_mc(c, export):
    s = "SPECIFICATION Spec\n" + consts(*c) + "VIEW McView\n"
    if export:
        s += "ACTION_CONSTRAINT PrintEdge\n"
    else:
        s += "INVARIANT TypeOK Legal TotalOrder\nPROPERTY %s\n" % PROPS
    return s + "CHECK_DEADLOCK FALSE\n"


def lat(e, f=0):
    """Code of the lattice float 2^e (1 + f / 256) in mode "sci" (Objective.tla, LCode over F64)."""
    return (e + 1074) * 256 + f + 1


def sci_inputs(q):
    """Operands of extreme magnitude offered to the model in mode "sci": (positive codes, those also negated)."""
    pos = [lat(-1074), lat(-1073, 128), lat(-1022), lat(-1022, 128), lat(-537), lat(0), lat(0, 128), lat(512),
           lat(1023), lat(1023, 255)]
    neg = [lat(-1074), lat(0), lat(1023)]
    if not q:
        pos += [lat(-1072, 64), lat(-1023, 255), lat(-538), lat(1, 128), lat(511), lat(1022, 128)]
        neg += [lat(-1022), lat(0, 128), lat(512), lat(1023, 255)]
    return pos, neg


def cfg_sci(q):
    """Design check and transition export of mode "sci" in one single-worker run."""
    pos, neg = sci_inputs(q)
    return ("SPECIFICATION Spec\n" + consts(1, 2, 2, [0], 1, pos, neg) + "VIEW McView\n"
            "INVARIANT TypeOK Legal TotalOrder\nPROPERTY LegalReplies ConstructionExact SciIdentities\n"
            "ACTION_CONSTRAINT PrintEdge\nCHECK_DEADLOCK FALSE\n")


def known_ids(ctx):
    return sorted(k["id"] for k in ctx.known.get("findings", [])
                  if k.get("property") == "C09" and k.get("kind") == "known" and k["id"].startswith("KF_obj_"))


def cfg_trace(ctx):
    ids = ", ".join('"%s"' % i for i in known_ids(ctx))
    return ("SPECIFICATION TraceSpec\n" + consts(1, 2, 2, [0], 1) + "  Known = {%s}\n" % ids +
            "INVARIANT Legal\nPOSTCONDITION TraceDone\nCHECK_DEADLOCK FALSE\n")


ERR = ("err_nan", "err_neginf", "illegal", "panic", "none", "no_operand", "unconstructible")
DESCRIBE = {
    "state": lambda r: r["vals"],
    "act": lambda r: r["act"],
    "is_reset": lambda r: r["act"]["op"] == "reset",
    # non-trivial: a new value was obtained, the call was refused / failed, an illegal value came back,
    # or an order / dominance question was answered
    "nontrivial": lambda r, before, after: before != after or r["res"]["k"] in ERR
                  or r["res"]["c"] in ("nan", "neginf") or r["res"]["k"] in ("ord", "list", "idx", "found", "insert"),
}

RULE = ("cases = public calls of SingleObjective / MultiObjective (construction, constants, derived arithmetic "
        "operators, the eight comparison forms, min/max, sort, iterator min/max, dedup, contains/position, "
        "binary search, is_finite, value, Pareto "
        "comparison forms) executed on the real types with operands obtained through the API; generated by (B) a "
        "transition tour over every transition of the bounded TLC models (exact small floats; lattice floats of "
        "extreme magnitude) and (C) a systematic operand-class sweep plus seeded runs over a float grid and random "
        "bit patterns (dense-rank projection) and a systematic sweep plus seeded operation chains over lattice "
        "floats of extreme magnitude; "
        "non-trivial = obtained a new value, was refused/failed, returned an illegal value, or answered an "
        "order/dominance question; distinct = distinct (set of obtained values, call) pairs")


def validate(ctx, trace, name, meta):
    # Which deviations are tolerated is decided by the spec alone (KFStep: exactly the raw IEEE result, for the listed
    # (operator, operand classes)); a record TLC rejects is therefore never excused by the field matching of
    # known_findings.json, whose `match` objects only name the classes (a wrong NUMBER of a listed class would pass).
    saved = ctx.known
    ctx.known = dict(saved, findings=[dict(k, match=dict(k.get("match", {}), **{"act.op": "(decided by the spec)"}))
                                      if k.get("property") == "C09" else k for k in saved.get("findings", [])])
    try:
        ok = ctx.validate("Trace_Objective", cfg_trace(ctx), trace, name, DESCRIBE, meta, max_rejections=6)
    finally:
        ctx.known = saved
    # known deviations accepted by KFStep are printed by TLC as <<"KF", id>>
    fired = set()
    for p in glob.glob(os.path.join(ctx.work, name + "-*.out")):
        with open(p) as f:
            for line in f:
                m = re.match(r'<<"KF", "([^"]+)">>', line)
                if m:
                    fired.add(m.group(1))
    by_id = {k["id"]: k for k in ctx.known.get("findings", [])}
    for i in sorted(fired):
        if i not in ctx.known_hits:
            ctx.known_hits.append(i)
            vlib.log("KNOWN-FINDING: property=%s %s: %s" % (ctx.pid, i, by_id[i]["what"]))
    return ok


def run(ctx):
    q = ctx.quick
    # (A) design check
    mc = (1, 2, 2, [0, 1, INF], 3) if q else (2, 4, 3, [0, 1, 2, INF], 3)
    ctx.tlc_mc("MC_Objective", cfg_mc(mc, False), "mc", workers=4, timeout=1500)
    # (B) spec -> impl: every transition of the bounded model on the real types, exact floats
    ex_c = (1, 2, 2, [0, 1, INF], 3) if q else (2, 3, 2, [0, 1, INF], 3)
    ex = ctx.tlc_mc("MC_Objective", cfg_mc(ex_c, True), "export", workers=1, timeout=1500)
    scen, edges = vlib.export_scenarios(ctx, ex["out"], "tour")
    vlib.vacuity(edges, "act.op", ["try_from", "infinity", "default", "neg", "add", "sub", "mul", "div", "cmp",
                                   "min", "max", "is_finite", "value", "sort", "list_min", "list_max",
                                   "dedup", "contains", "position", "bsearch",
                                   "m_try_from", "m_cmp", "m_is_finite"], "objective call")
    vlib.vacuity(edges, "res.k", ["ok", "err_nan", "err_neginf", "val", "illegal", "ord", "bool", "list", "none",
                                  "idx", "found", "insert"],
                 "reply kind")
    tr = os.path.join(ctx.work, "tour.trace.ndjson")
    ctx.harness("objective", "replay", **{"in": scen, "out": tr})
    validate(ctx, tr, "tour", {"driver": "objective", "mode": "replay"})
    # (A) + (B) operands of extreme magnitude (mode "sci"): correct rounding of the lattice arithmetic over whole small
    # formats (assumptions of MC_Objective), the model over f64's exponent range, every transition replayed
    sc = ctx.tlc_mc("MC_Objective", cfg_sci(q), "mc-sci", workers=1, timeout=1500)
    scen2, edges2 = vlib.export_scenarios(ctx, sc["out"], "tour-sci")
    vlib.vacuity(edges2, "act.op", ["try_from", "neg", "add", "sub", "mul", "div"], "objective call (mode sci)")
    vlib.vacuity(edges2, "res.k", ["ok", "err_nan", "err_neginf", "val", "illegal", "off"], "reply kind (mode sci)")
    vlib.vacuity([e for e in edges2 if e["res"]["k"] == "val"], "res.c", ["neg", "zero", "pos", "posinf"],
                 "class of a result (mode sci)")
    tr3 = os.path.join(ctx.work, "tour-sci.trace.ndjson")
    ctx.harness("objective", "replay", **{"in": scen2, "out": tr3, "fmt": "sci"})
    validate(ctx, tr3, "tour-sci", {"driver": "objective", "mode": "replay", "fmt": "sci"})
    # (C) impl -> spec: operand-class sweep + float grid + random bit patterns
    n, ln, nb, nsci = (8, 8, 4, 8) if q else (400, 10, 200, 300)
    tr2 = os.path.join(ctx.work, "random.trace.ndjson")
    ctx.harness("objective", "random", out=tr2, seed=ctx.seed, n=n, len=ln, nb=nb, nsci=nsci)
    validate(ctx, tr2, "random", {"driver": "objective", "mode": "random", "seed": ctx.seed, "n": n, "len": ln,
                                  "nb": nb, "nsci": nsci})
    ctx.assumptions += [
        "design check bounded by inputs -%d..%d + specials, finite results |r| <= %d, lists <= %d, vectors <= %d over %s"
        % (mc[0], mc[0], mc[1], mc[2], mc[4], mc[3]),
        "exact replay uses small integers (k as f64), so IEEE arithmetic is exact there; arithmetic on the float "
        "grid is validated by class only",
        "adjacent-float clusters: 18 fixed magnitudes + %d seeded random bit patterns, values m, m +- 1, m +- 2 "
        "representable steps and their negatives; dense rank keeps neighbours distinct" % nb,
        "Mul/Div of SingleObjective take a raw f64 scalar (derive_more), which ranges over all classes incl. NaN/-inf",
        "mode sci: operands are floats with <= 9 significant bits (exponents -1074..1023); the spec's lattice arithmetic "
        "is checked to be correctly rounded on four small formats (pf, pl, lo, hi) = (2,2,-4,2), (4,2,-6,2), (3,2,-5,3), "
        "(6,1,-8,2) and used with f64's parameters (52, 8, -1074, 1023); the code <-> float map of the harness "
        "(lat_code / lat_float, bit manipulation only) is trusted",
    ]
    return ctx.finish(RULE)


def replay(ctx, rp):
    meta = rp["meta"]
    tr = os.path.join(ctx.work, "replay.trace.ndjson")
    if meta.get("mode") == "random":
        ctx.harness("objective", "random", out=tr, seed=meta["seed"], n=meta["n"], len=meta["len"],
                    nb=meta.get("nb", 4), nsci=meta.get("nsci", 0))
    else:
        scen = os.path.join(ctx.work, "replay.scen.ndjson")
        with open(scen, "w") as f:
            f.write(json.dumps({"run": 0, "acts": rp["acts"]}) + "\n")
        ctx.harness("objective", "replay", **{"in": scen, "out": tr, "fmt": meta.get("fmt", "exact")})
    validate(ctx, tr, "replay", meta)
    return ctx.finish(RULE)
