"""C16 — every shipped template runs to completion and keeps the stack balanced (spec/Run.tla, Wiring.tla)."""
import json, os
import vlib
from checks import runlib
from checks.templates_grid import specs

MANIFEST = {
    "modules": ["Wiring", "Run"],
    "text": "Wiring.tla interprets the component tree of every template (extracted from the code by name-preserving "
            "serialisation) with leaves reduced to their stack effect (spec/effects.json) and conditions to scripts; TLC "
            "explores every template x every branch-outcome script up to the bound and reports NoUnderflow / PassBalanced / "
            "OneAtEnd per template. Run.tla binds the same effect table to the code: all 21 templates run over parameter "
            "grids x seeds x instances x iteration counts under the step observer, and TLC validates every recorded step "
            "(observed stack delta = table entry, operands present, balanced passes, population-size bounds at the end of "
            "each main-loop pass) and the end of every run (constructor accepted the valid parameters, Ok result, one "
            "population left, exactly the requested number of iterations).",
    "technique": "TLA+ spec + TLC exploration of extracted template trees + TLC trace validation of step-observer traces",
    "design_ref": "DESIGN.md §6 C16, §4",
    "note": "the effect table is part of the spec; an unknown component name is a tool error, not a verdict",
}


def conv(n):
    if isinstance(n, dict):       # a body that is one component rather than a block
        return [stmt(n)]
    return [stmt(c) for c in n]


def stmt(c):
    if isinstance(c, list):
        return {"k": "block", "v": "-", "b": conv(c), "e": []}
    nm = c.get("$")
    if nm == "Loop":
        return {"k": "while", "v": "-", "b": conv(c["do"]), "e": []}
    if nm == "Branch":
        if c.get("else_body", "None") == "None":      # spelled as None or left out
            return {"k": "if", "v": "-", "b": conv(c["if_body"]), "e": []}
        return {"k": "ifelse", "v": "-", "b": conv(c["if_body"]), "e": conv(c["else_body"])}
    if nm == "Scope":
        return {"k": "scope", "v": "-", "b": conv(c["body"]), "e": []}
    return {"k": "leaf", "v": nm, "b": [], "e": []}


def wiring(ctx):
    """(A) abstract interpretation of the extracted trees of all templates, all branch outcomes up to the bound."""
    seen, uniq = set(), []
    for s in specs(ctx.quick, [0], [2]):
        key = (s["template"], json.dumps(s["params"], sort_keys=True))
        if key not in seen:
            seen.add(key)
            uniq.append(s)
    spath = os.path.join(ctx.work, "trees.specs.ndjson")
    with open(spath, "w") as f:
        for s in uniq:
            f.write(json.dumps(s) + "\n")
    tpath = os.path.join(ctx.work, "trees.ndjson")
    ctx.harness("templates", "trees", **{"in": spath, "out": tpath})
    wpath = os.path.join(ctx.work, "wiring.trees.ndjson")
    shapes = set()
    with open(wpath, "w") as f:
        for line in open(tpath):
            r = json.loads(line)
            if r["tree"] == "ctor_err":
                ctx.direct_violation("template constructor rejected valid parameters", {"t": r["template"], "ev": "ctor"},
                                     {"driver": "templates-trees"})
                continue
            prog = conv(r["tree"])
            shape = json.dumps([r["template"], prog])
            if shape in shapes:       # same structure for different parameter values: once is enough
                continue
            shapes.add(shape)
            f.write(json.dumps({"template": r["template"], "prog": prog}) + "\n")
    cfg = "SPECIFICATION WSpec\nCONSTANTS\n  MaxScript = %d\nINVARIANT NoUnknown Verdict\nCHECK_DEADLOCK FALSE\n" % (5 if ctx.quick else 9)
    mc = ctx.tlc_mc("Wiring", cfg, "wiring", workers=1, timeout=3000, java_opts="-Xss512m", env_extra={"TREES": wpath})
    bad = {}
    ntemplates = set()
    for line in open(mc["out"]):
        if line.startswith('<<"WIRING"'):
            v = json.loads(json.loads(line.strip()[len('<<"WIRING", '):-2]))
            ntemplates.add(v["template"])
            if v["under"] or v["unbal"] or v["h"] != 1:
                bad.setdefault(v["template"], v)
    if len(ntemplates) < 21:
        raise vlib.ToolError("Wiring saw only %d templates" % len(ntemplates))
    for t, v in sorted(bad.items()):
        ctx.direct_violation("template wiring is not stack-balanced for some branch outcomes",
                             {"t": t, "ev": "exit", "role": "loop_body", "wiring": v}, {"driver": "wiring"})
    vlib.log("[wire] %d templates, %d distinct tree shapes, %d with unbalanced / underflowing wiring" %
             (len(ntemplates), len(shapes), len(bad)))
    # leaf names occurring in the trees: every one of them must be executed by some run (vacuity guard)
    names = set()

    def walk(body):
        for st in body:
            if st["k"] == "leaf":
                names.add(st["v"])
            walk(st["b"])
            walk(st["e"])
    for shape in shapes:
        walk(json.loads(shape)[1])
    return names

RULE = ("cases = runs of the 21 shipped templates over parameter grids x seeds x instances under the step observer; "
        "evaluations = recorded component steps / block boundaries; non-trivial = the step changed the projected state; "
        "distinct = distinct (projected state before, component) pairs")


def run(ctx):
    q = ctx.quick
    tree_names = wiring(ctx)
    tr, executed, nruns = runlib.run_templates(
        ctx, ["C16"], seeds=[ctx.seed, ctx.seed + 1, ctx.seed + 2] if q else list(range(ctx.seed, ctx.seed + 3)),
        iters=[0, 1, 5, 40] if q else [0, 1, 5, 30, 80])
    # the same templates with the parallel evaluator on pools of 2 and 3 worker threads (population sizes that are not
    # multiples of the pool size included)
    runlib.run_templates(ctx, ["C16"], seeds=[ctx.seed] if q else [ctx.seed, ctx.seed + 1, ctx.seed + 2], iters=[3] if q else [3, 12],
                         name="par-runs", evals=("par2", "par3"),
                         templates=["real_ga", "real_pso", "real_de", "real_mu_plus_lambda_es", "real_iwo", "real_fa", "real_bh", "real_cro",
                                    "binary_ga", "ant_system", "max_min_ant_system", "real_sa", "real_ls", "real_rs"])
    never = sorted(tree_names - executed)
    if never:
        raise vlib.ToolError("vacuous: components of the shipped templates that no run executed: %s" % never)
    return ctx.finish(RULE)


def replay(ctx, rp):
    runlib.replay(ctx, rp, ["C16"])
    return ctx.finish(RULE)
