"""C16 — every shipped template runs to completion and keeps the stack balanced (spec/Run.tla, Wiring.tla)."""
import vlib
from checks import runlib

MANIFEST = None   # filled in below once the Wiring model is in place

RULE = ("cases = runs of the 21 shipped templates over parameter grids x seeds x instances under the step observer; "
        "evaluations = recorded component steps / block boundaries; non-trivial = the step changed the projected state; "
        "distinct = distinct (projected state before, component) pairs")


def run(ctx):
    q = ctx.quick
    runlib.run_templates(ctx, ["C16"], seeds=[ctx.seed, ctx.seed + 1, ctx.seed + 2] if q else list(range(ctx.seed, ctx.seed + 20)),
                         iters=[0, 1, 5] if q else [0, 1, 5, 30])
    return ctx.finish(RULE)


def replay(ctx, rp):
    runlib.replay(ctx, rp, ["C16"])
    return ctx.finish(RULE)
