"""C05 — objective values are never stale (spec/Memory.tla unit level, spec/Run.tla for every step of every template)."""
import vlib
from checks import memlib, runlib

MANIFEST = {
    "modules": ["Memory", "Run"],
    "text": "Unit level: Memory.tla models individuals as (solution, cached objective) with every public way to touch "
            "them (new / unevaluated / clone / solution_mut with and without write / as_solutions_mut / into_solutions + "
            "into_individuals / evaluate_with / set_objective / evaluation step / best / archive, and USER-WRITTEN operators "
            "behind the helper combinators mutation() / selection() / replacement() that fail midway -- after or before "
            "having written the solution they were handed; whether a failing execution hands the population back or "
            "loses it is left open, whoever is still in the state and was written must be unevaluated); TLC checks the invariant "
            "Fresh (evaluated => objective = F[solution], over population, best and archive) and the action properties "
            "MutableAccessClears / CopyKeepsPair exhaustively for the bounded constants; a transition tour and random "
            "histories are replayed on real Individual<P> values and validated by TLC. Template level: all 21 shipped "
            "templates run over parameter grids x seeds under the step observer; after EVERY component of every block the "
            "harness compares, for every individual anywhere in the state (population stack, best-so-far, archive, swarm "
            "memories), the cached objective bit-for-bit with a fresh pure evaluation (every shipped variation component also on "
            "objectives that depend on WHERE a gene sits -- weighted zeros, weighted completion times of a schedule: not even "
            "rotation invariant -- on containers of 2, 3 and 6 elements), and TLC (Run.tla, clause C05) "
            "requires the stale count to be 0 in every recorded step.",
    "technique": "TLA+ spec + TLC model checking + TLC trace validation (unit tours; step-observer traces of all template runs)",
    "design_ref": "DESIGN.md §6 C05, §4.1",
    "note": "freshness predicate obj.to_bits() == f(sol).to_bits() is evaluated by the harness (the harness's problems are pure)",
}

RULE = ("cases = (i) individual-level operations executed on real individuals from a given abstract state (transition tour "
        "of the bounded model + random histories), (ii) every component step of runs of the 21 templates over the grid; "
        "non-trivial = the step changed the projected state; distinct = distinct (projected state before, operation) pairs")


def run(ctx):
    q = ctx.quick
    memlib.unit(ctx, ["new", "new_unevaluated", "clone", "clone_from", "solution_mut", "solution_mut_peek", "as_solutions_mut",
                      "round_trip", "evaluate_with", "set_objective", "evaluate",
                      "user_mutation", "user_mutation_v", "user_select_replace"])
    runlib.run_templates(ctx, ["C05"], seeds=[ctx.seed, ctx.seed + 1] if q else list(range(ctx.seed, ctx.seed + 12)),
                         iters=[3] if q else [1, 8, 30])
    # differential evolution with several difference vectors on clamped (coinciding) individuals needs a few passes
    runlib.run_templates(ctx, ["C05"], seeds=list(range(ctx.seed, ctx.seed + (4 if q else 12))), iters=[12] if q else [12, 40],
                         name="de-runs", templates=["real_de"])
    # every shipped variation component on evaluated parents (odd / even parent counts, crossover probabilities,
    # insert-single / insert-both), observed after each component
    runlib.run_templates(ctx, ["C05"], seeds=[ctx.seed, ctx.seed + 1] if q else list(range(ctx.seed, ctx.seed + 10)),
                         iters=[3] if q else [2, 9], name="components", components=True)
    return ctx.finish(RULE)


def replay(ctx, rp):
    if rp["meta"].get("driver") == "memory":
        memlib.replay_unit(ctx, rp)
    else:
        runlib.replay(ctx, rp, ["C05"])
    return ctx.finish(RULE)
