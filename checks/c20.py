"""C20 — chemical-reaction steps conserve energy and keep molecules aligned (Cro.tla, Run.tla clause C20)."""
import vlib
from checks import runlib

MANIFEST = {
    "modules": ["Cro", "Run"],
    "text": "Cro.tla models the four elementary reaction updates over integer energies exactly as the components compute them "
            "(accepted / rejected / buffer-assisted, random splits as nondeterministic choices); TLC checks Conserved (sum of "
            "objective values + kinetic energies + buffer unchanged by every action), NonNegative, Aligned, ConsumesTwo and "
            "Locality for all energies and reaction outcomes within the bound. Binding: real_cro runs over population sizes, "
            "collision rates and seeds under the step observer; after EVERY component TLC (Run.tla clause C20) requires "
            "energy conserved within 1e-9 relative w.r.t. the previous step, no negative kinetic energy or buffer, one "
            "molecule per individual of the base population, each molecule's remembered best no worse than its individual "
            "(alignment), and that the four updates consume exactly two populations.",
    "technique": "TLA+ spec + TLC model checking + TLC trace validation of step-observer traces (float facts as harness predicates)",
    "design_ref": "DESIGN.md §6 C20",
    "note": "conserved / ke_ok / buf_ok / best_le are evaluated in f64 by the harness",
}

RULE = ("cases = every component step of real_cro runs over the grid x seeds (plus all reaction outcomes of the bounded Cro "
        "model); non-trivial = the step changed the projected state; distinct = distinct (state before, component) pairs")


def run(ctx):
    q = ctx.quick
    ctx.tlc_mc("MC_Cro", "SPECIFICATION CSpec\nCONSTANTS\n  MaxE = 2\n  MaxMol = %d\nVIEW McView\nCONSTRAINT Bounded\nINVARIANT NonNegative Aligned\n"
               "PROPERTY Conserved ConsumesTwo Locality\nCHECK_DEADLOCK FALSE\n" % (2 if q else 3), "mc-cro",
               workers=4 if q else 10, timeout=3000)
    runlib.run_templates(ctx, ["C20"], seeds=list(range(ctx.seed, ctx.seed + (4 if q else 50))),
                         iters=[0, 3, 20, 60] if q else [3, 20, 60, 200], templates=["real_cro"], quick_grid=False)
    return ctx.finish(RULE)


def replay(ctx, rp):
    runlib.replay(ctx, rp, ["C20"])
    return ctx.finish(RULE)
