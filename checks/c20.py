"""C20 — chemical-reaction steps conserve energy and keep molecules aligned (Cro.tla, Run.tla clause C20)."""
import json, os
import vlib
from checks import runlib, templates_grid

MANIFEST = {
    "modules": ["Cro", "Trace_Cro", "Run"],
    "text": "Cro.tla models the four elementary reaction updates over integer energies exactly as the components compute them "
            "(accepted / rejected / buffer-assisted, random splits as nondeterministic choices) on a population whose "
            "individuals hold solutions AND objective values (the same solution with different objective values, copies, a "
            "product landing on a bystander's solution) with 0..1 populations of a caller underneath; TLC checks Conserved (sum of "
            "objective values + kinetic energies + buffer unchanged by every action), NonNegative, Aligned, ConsumesTwo "
            "(h = below + 3 -> below + 1) and Locality (bystanders keep solution, objective value and kinetic energy) for all "
            "energies and reaction outcomes within the bound. Binding (prepared states): every (state, "
            "reaction) pair of the bounded model and seeded random integer-energy states (equal individuals, equal solutions "
            "with different objective values, zero energies, products costing exactly what is there / one more, 0..3 "
            "populations underneath holding copies of reactants, products and the population) are executed by the real update "
            "components on a prepared State, each in a power-of-two energy unit between 2^-200 and 2^200 (exact scaling: the "
            "integer decision of the model binds at every magnitude), some with an offset of 2^51 (exact) or 2^60 (inexact) on "
            "reactant and product; Trace_Cro.tla loads each recorded state into Cro's "
            "variables and requires the recorded outcome to be a step of Cro's own action for that call: accepted / rejected "
            "decided from the integer energies, objective values and solutions after exactly and in place, kinetic share and "
            "buffer level rounded, plus float predicates (conserved, non-negative, shares add up, non-participants "
            "bit-identical, molecules aligned, populations underneath bit-identical). "
            "Binding (runs): real_cro runs, and runs of real_cro as a step of a heuristic with a population of its own "
            "underneath (real_cro|under), over population sizes, "
            "collision rates and seeds under the step observer; after EVERY component TLC (Run.tla clause C20) requires "
            "energy conserved within 1e-9 relative w.r.t. the previous step, no negative kinetic energy or buffer, one "
            "molecule per individual of the base population, each molecule's remembered best no worse than its individual "
            "(alignment), and that the four updates consume exactly two populations.",
    "technique": "TLA+ spec + TLC model checking + TLC trace validation of step-observer traces (float facts as harness predicates)",
    "design_ref": "DESIGN.md §6 C20",
    "note": "conserved / ke_ok / buf_ok / best_le are evaluated in f64 by the harness",
}

RULE = ("cases = reaction updates on prepared states (every (state, reaction) pair of the bounded Cro model x seeds, plus "
        "seeded random integer-energy states) and every component step of real_cro runs over the grid x seeds; non-trivial = the step changed the projected state; distinct = distinct (state before, component) pairs")


CRO_DESCRIBE = {
    "state": lambda r: [r.get("pe2"), r.get("sol2"), r.get("nm"), r.get("bf"), r.get("kef")],
    "act": lambda r: {k: r.get(k) for k in ("op", "i", "j", "p1", "p2", "pe", "ke", "sol", "below", "buffer", "seed", "lr", "unit", "off")},
    "is_reset": lambda r: False,
    "nontrivial": lambda r, before, after: r.get("res") != "unchanged",
}


def cfg_trace_cro(maxmol):
    return ("SPECIFICATION TraceSpec\nCONSTANTS\n  MaxE = 0\n  MaxMol = %d\n  MaxSol = 1\n  MaxBelow = 0\nPOSTCONDITION TraceDone\n"
            "CHECK_DEADLOCK FALSE\n" % maxmol)


def cfg_mc(maxmol, maxsol, maxbelow, tail, constraint="Bounded"):
    return ("SPECIFICATION CSpec\nCONSTANTS\n  MaxE = 2\n  MaxMol = %d\n  MaxSol = %d\n  MaxBelow = %d\nVIEW McView\nCONSTRAINT %s\n%s"
            "CHECK_DEADLOCK FALSE\n" % (maxmol, maxsol, maxbelow, constraint, tail))


def prepared(ctx):
    """Prepared states: (B) every (state, reaction) pair of the bounded model, (C) random integer-energy states."""
    q = ctx.quick
    # quick: the 2-molecule model with up to two distinct solutions and one population underneath; thorough: that one, and
    # the 3-molecule model on the minimal stack with everybody holding the same solution (different objective values),
    # prepared states within two reactions of an initial state
    exports = [("export-cro", 2, 2, 1, "Bounded")] + ([] if q else [("export-cro3", 3, 1, 0, "Bounded Shallow")])
    seen, cases = set(), []
    import tour
    for (name, mm, ms, mb, con) in exports:
        ex = ctx.tlc_mc("MC_Cro", cfg_mc(mm, ms, mb, "ACTION_CONSTRAINT PrintEdge\n", con), name, workers=1, timeout=3000)
        for e in tour.parse_edges(ex["out"]):
            key = json.dumps([e["from"], e["act"]], sort_keys=True)
            if key not in seen:
                seen.add(key)
                cases.append({"from": e["from"], "act": e["act"]})
    if len(cases) < 1000:
        raise vlib.ToolError("export of the Cro model yielded only %d (state, reaction) pairs" % len(cases))
    ops = {c["act"]["op"] for c in cases}
    if ops != {"init", "scoped_init", "on_wall", "decompose", "intermolecular", "synthesis"}:
        raise vlib.ToolError("vacuous export: reactions %s" % sorted(ops))
    # the export has to offer what the binding is about: populations underneath, and two individuals holding the same
    # solution with different objective values one of which reacts
    def noisy_twin(c):
        f, a = c["from"], c["act"]
        return a["i"] > 0 and any(k + 1 != a["i"] and f["sol"][k] == f["sol"][a["i"] - 1] and f["pe"][k] != f["pe"][a["i"] - 1]
                                  for k in range(len(f["pe"])))
    if not any(c["from"]["below"] > 0 for c in cases) or not any(noisy_twin(c) for c in cases):
        raise vlib.ToolError("vacuous export: no populations underneath / no equal solutions with different objective values")
    # (quick: every eighth pair of the 2-molecule model; thorough: the same of both models)
    cases = cases[ctx.seed % 8::8]
    cpath = os.path.join(ctx.work, "cro.cases.ndjson")
    with open(cpath, "w") as f:
        for c in cases:
            f.write(json.dumps(c) + "\n")
    vlib.log("[case] cro: %d (state, reaction) pairs exported" % len(cases))
    tr = os.path.join(ctx.work, "cro-enum.trace.ndjson")
    ctx.harness("cro", "replay", **{"in": cpath, "out": tr, "seed": ctx.seed, "seeds": 2})
    ctx.validate("Trace_Cro", cfg_trace_cro(99), tr, "cro-enum", CRO_DESCRIBE, {"driver": "cro"}, timeout=3000)
    tr = os.path.join(ctx.work, "cro-random.trace.ndjson")
    ctx.harness("cro", "random", out=tr, seed=ctx.seed, n=6000 if q else 40000, maxe=40 if q else 120)
    ctx.validate("Trace_Cro", cfg_trace_cro(99), tr, "cro-random", CRO_DESCRIBE, {"driver": "cro"}, timeout=3000)


def run(ctx):
    q = ctx.quick
    prepared(ctx)
    props = "INVARIANT NonNegative Aligned\nPROPERTY Conserved ConsumesTwo Locality\n"
    ctx.tlc_mc("MC_Cro", cfg_mc(2, 2, 1, props), "mc-cro", workers=4, timeout=3000)
    if not q:
        # three molecules: two distinct solutions on the minimal stack
        ctx.tlc_mc("MC_Cro", cfg_mc(3, 2, 0, props), "mc-cro3", workers=10, timeout=3000)
    runlib.run_templates(ctx, ["C20"], seeds=list(range(ctx.seed, ctx.seed + (4 if q else 12))),
                         iters=[0, 3, 20, 60] if q else [3, 20, 60, 200], templates=["real_cro"], quick_grid=False,
                         more_specs=templates_grid.cro_under_specs(q, [ctx.seed, ctx.seed + 1] if q else list(range(ctx.seed, ctx.seed + 4)),
                                                                   [3, 40] if q else [3, 40, 150]))
    return ctx.finish(RULE)


def replay(ctx, rp):
    if rp["meta"].get("driver") == "cro":
        a = rp["first_unmatched"]
        cpath = os.path.join(ctx.work, "replay.cases.ndjson")
        with open(cpath, "w") as f:
            f.write(json.dumps({"from": {"pe": a["pe"], "ke": a["ke"], "sol": a["sol"], "buffer": a["buffer"], "below": a["below"]},
                                "act": {k: a[k] for k in ("op", "i", "j", "p1", "p2")},
                                "unit": a["unit"], "off": a["off"], "lr": a["lr"]}) + "\n")
        tr = os.path.join(ctx.work, "replay.trace.ndjson")
        ctx.harness("cro", "replay", **{"in": cpath, "out": tr, "seed": a["seed"], "seeds": 1})
        ctx.validate("Trace_Cro", cfg_trace_cro(99), tr, "replay", CRO_DESCRIBE, rp["meta"])
        return ctx.finish(RULE)
    runlib.replay(ctx, rp, ["C20"])
    return ctx.finish(RULE)
