"""C17 — simulated-annealing acceptance follows the Metropolis rule; geometric cooling (spec/Operators.tla)."""
import os
import vlib
from checks import ops_common as oc, runlib

MANIFEST = {
    "modules": ["Operators", "Run"],
    "text": "ExponentialAnnealingAcceptance and GeometricCooling are actions of Operators.tla on the stack layout "
            "the SA template produces and the component documents (current solution below, candidate on top) and "
            "on the cooling count temp (T = T0 * alpha^temp). TLC checks the decision table (candidate better / "
            "equal / worse x probability class zero / mid / one) against the independently stated clauses: the "
            "two single-individual populations become one holding the survivor, an at-least-as-good candidate "
            "always survives, a worse one never when p < 1e-12 and always when p > 1 - 1e-12, every cooling adds "
            "exactly one factor and nothing else changes the temperature. Every enumerated case is executed on "
            "the real components; per (pair, T) cell N seeded executions are recorded and TLC's trace validation "
            "counts the accepted ones and requires the count within the 6-sigma band of N * exp(-(f(S') - f(S)) / T); "
            "runs in template order (All, generation, cooling, acceptance) are validated step by step. Template level "
            "(spec/Run.tla, clause group C17): every step of real_sa / permutation_sa runs under the step observer; "
            "the acceptance step directly follows the cooling step and is taken at T = t_0 * alpha^(passes + 1), "
            "no other component changes the temperature, and the runs reach their termination condition.",
    "technique": "TLA+ decision relation + TLC model checking + TLC trace validation with acceptance counters per (pair, T) cell",
    "design_ref": "DESIGN.md §6 C17",
    "note": "harness-side float predicates (trusted): the probability class and the 6-sigma count bounds are computed "
            "from the inputs (f(S), f(S'), T, N) only; temp is found by comparing the stored temperature with the exact "
            "products T0 * alpha^e. The frequency clause is statistical (fixed seeds derived from VERIF_SEED).",
}

RULE = ("cases = executions of the acceptance / cooling component on a prepared stack and temperature; generated "
        "by (B) TLC's enumeration of the decision table, replayed at temperatures realising each probability "
        "class, and (C) (pair, T) cells of N seeded executions on a grid of objective differences 1e-6..1e6 and "
        "d/T ratios 1e-15..1e9 plus runs in SA-template order; non-trivial = the execution changed stack or "
        "temperature; distinct = distinct (stack and cooling count before, call) pairs")

T0_FOR = {"-": "2.0", "zero": "1e-9", "mid": "2.0", "one": "1e15"}


def run(ctx):
    q = ctx.quick
    ops = oc.SA_OPS
    ctx.tlc_mc("MC_Operators", oc.cfg_mc("sa", ops, oc.SA_PROPS, "Ind6", 1, 0), "mc", workers=2, timeout=600)
    ex = ctx.tlc_mc("MC_Operators", oc.cfg_mc("sa", ops, oc.SA_PROPS, "Ind6", 1, 0, export=True), "export",
                    workers=1, timeout=600)
    cases = oc.parse_cases(ex["out"])
    oc.ops_vacuity(cases, ops, "SA call")
    scen = oc.scenarios_from_cases(ctx, cases, "cases", 3 if q else 4, t0_for=lambda pc: T0_FOR[pc])
    tr = os.path.join(ctx.work, "cases.trace.ndjson")
    ctx.harness("operators", "replay", **{"in": scen, "out": tr})
    ctx.validate("Trace_Operators", oc.CFG_TRACE, tr, "cases", oc.DESCRIBE, {"driver": "operators"})
    tr2 = os.path.join(ctx.work, "random.trace.ndjson")
    ctx.harness("operators", "random", family="sa", out=tr2, seed=ctx.seed, trials=1000 if q else 4000,
                full=0 if q else 1, n=10 if q else 100, len=40 if q else 60)
    oc.trace_vacuity(tr2, ops + ["all", "set_top"], "SA template step")
    ctx.validate("Trace_Operators", oc.CFG_TRACE, tr2, "random", oc.DESCRIBE, {"driver": "operators"},
                 timeout=1700)
    runlib.run_templates(ctx, ["C17"], seeds=[ctx.seed, ctx.seed + 1] if q else list(range(ctx.seed, ctx.seed + 20)),
                         iters=[0, 1, 7, 40] if q else [0, 1, 7, 40, 300], name="sa-runs",
                         templates=["real_sa", "permutation_sa"], quick_grid=False)
    ctx.assumptions += [
        "acceptance frequency: two-sided 6-sigma band per cell of N = %d seeded executions" % (1000 if q else 4000),
        "stack layout = the one src/heuristics/sa.rs produces and replacement/sa.rs documents (S below, S' on top)"]
    return ctx.finish(RULE)


def replay(ctx, rp):
    if rp.get("meta", {}).get("driver") == "templates":
        runlib.replay(ctx, rp, ["C17"])
        return ctx.finish(RULE)
    return oc.replay(ctx, rp, RULE)
