"""Parameter grids of the 21 shipped templates (valid parameters only: accepted by the constructor, within the
documented ranges, population sizes the template's own operators can work on) and the population-size bounds
checked at the end of every pass of the main loop (DESIGN §6 C16)."""

REAL = lambda dim=2, f=0, lo=-1.0, hi=1.0: {"kind": "real", "f": f, "dim": dim, "lo": lo, "hi": hi}
BITS = lambda dim=8, f=0: {"kind": "bits", "dim": dim, "f": f}
TSP = lambda dim=5, f=0: {"kind": "tsp", "f": f, "dim": dim}


def grid(quick):
    """-> list of (template, params, problem, (size_lo, size_hi))"""
    g = []
    # instances: sphere, shifted multimodal in 1 dimension, plateaus (integer-valued objective: exact ties), ...
    # walled sphere (objective +inf outside a small feasible box: whole populations can be infeasible)
    # negative objective values (linear with offset -100; negated sphere with -0.0 at the origin)
    reals = ([REAL(2), REAL(1, 1, 0.0, 4.0), REAL(2, 2, -2.0, 2.0), REAL(3, 3, -8.0, 8.0), REAL(2, 4, -5.0, 5.0)] if quick else
             [REAL(2), REAL(1, 1, 0.0, 4.0), REAL(2, 2, -2.0, 2.0), REAL(3, 3, -8.0, 8.0), REAL(2, 4, -5.0, 5.0), REAL(3, 5, -1.0, 1.0),
              REAL(5, 1, -4.0, 12.0), REAL(3, 0, 0.5, 0.75)])
    bits = [BITS(8)] if quick else [BITS(1), BITS(8)]
    tsps = [TSP(5), TSP(5, 3), TSP(5, 4)] if quick else [TSP(4), TSP(7, 1), TSP(8, 2), TSP(6, 3), TSP(5, 4), TSP(6, 4)]
    for pr in reals:
        for ps, ts in ([(4, 2), (1, 1)] if quick else [(4, 2), (1, 1), (7, 7), (10, 3)]):
            for pm in ([1.0] if quick else [0.0, 0.5, 1.0]):
                g.append(("real_ga", {"population_size": ps, "tournament_size": ts, "pm": pm, "deviation": 0.1, "pc": 0.8}, pr, (ps, ps)))
        for mu, lam in ([(3, 5), (1, 1)] if quick else [(3, 5), (1, 1), (5, 2), (2, 9)]):
            g.append(("real_mu_plus_lambda_es", {"population_size": mu, "lambda": lam, "deviation": 0.1}, pr, (mu, mu)))
        # incl. the smallest populations the selection accepts (population_size = 2y)
        for ps, y in ([(5, 1), (5, 2), (2, 1), (4, 2)] if quick else [(2, 1), (3, 1), (5, 1), (4, 2), (5, 2), (9, 2)]):
            g.append(("real_de", {"population_size": ps, "y": y, "f": 0.5, "pc": 0.5}, pr, (ps, ps)))
        # a scale factor of 2: trial vectors leave the domain, are clamped onto its ends and coincide
        g.append(("real_de", {"population_size": 6, "y": 2, "f": 2.0, "pc": 1.0}, pr, (6, 6)))
        w = pr["hi"] - pr["lo"]
        for np_, c, vm in ([(3, 0.5, 0.1), (1, 0.0, 10.0)] if quick else [(1, 0.0, 10.0), (2, 0.5, 0.1), (3, 2.0, 0.001), (10, 0.5, 0.1), (10, 0.0, 10.0)]):
            g.append(("real_pso", {"num_particles": np_, "start_weight": 0.9, "end_weight": 0.4, "c_one": c, "c_two": c, "v_max": vm * w}, pr, (np_, np_)))
        # inertia schedules: decreasing (above), increasing (the example of the mapping documentation), constant
        g.append(("real_pso", {"num_particles": 3, "start_weight": 0.4, "end_weight": 0.9, "c_one": 0.5, "c_two": 0.5, "v_max": 0.1 * w}, pr, (3, 3)))
        g.append(("real_pso", {"num_particles": 2, "start_weight": 0.7, "end_weight": 0.7, "c_one": 0.0, "c_two": 0.0, "v_max": 10.0 * w}, pr, (2, 2)))
        # compound termination criterion: an evaluation budget that never bites, OR-ed in front of the iteration bound
        g.append(("real_pso|evals", {"num_particles": 3, "start_weight": 0.9, "end_weight": 0.4, "c_one": 0.5, "c_two": 0.5, "v_max": 0.1 * w}, pr, (3, 3)))
        # a log rule "only the first 4 passes" (its trigger is a LessThanN on the same counter as the loop's)
        g.append(("real_pso|log4", {"num_particles": 3, "start_weight": 0.9, "end_weight": 0.4, "c_one": 0.5, "c_two": 0.5, "v_max": 0.1 * w}, pr, (3, 3)))
        # (C18 only, see PSO_VARIANTS) a second swarm under identifier A, a scoped inner loop in the repair step, a swarm
        # started after another phase filled the best-individual memory
        # no inertia at all: particles sitting on their own and the global best come to rest (zero velocity)
        g.append(("real_pso", {"num_particles": 4, "start_weight": 0.0, "end_weight": 0.0, "c_one": 2.0, "c_two": 2.0, "v_max": 0.25 * w}, pr, (4, 4)))
        for t0 in ([1.0] if quick else [1e-9, 1.0, 1e9]):
            g.append(("real_sa", {"t_0": t0, "alpha": 0.9, "deviation": 0.1}, pr, (1, 1)))
        if not quick:
            # extreme schedules: frozen after the first cooling; practically no cooling
            g.append(("real_sa", {"t_0": 1e300, "alpha": 0.0, "deviation": 0.1}, pr, (1, 1)))
            g.append(("real_sa", {"t_0": 5.0, "alpha": 0.999, "deviation": 0.5}, pr, (1, 1)))
        for nn in ([3] if quick else [1, 3, 8]):
            g.append(("real_ls", {"n_neighbors": nn, "deviation": 0.1}, pr, (1, 1)))
            g.append(("real_ils", {"n_neighbors": nn, "deviation": 0.1, "ls_iterations": 2}, pr, (1, 1)))
        g.append(("real_rs", {}, pr, (1, 1)))
        g.append(("real_rw", {"deviation": 0.1}, pr, (1, 1)))
        # a single weed / equal weeds with min_number_of_seeds = 0 produce an empty offspring population
        g.append(("real_iwo", {"initial_population_size": 1, "max_population_size": 3, "min_number_of_seeds": 0,
                               "max_number_of_seeds": 1, "initial_deviation": 0.01, "final_deviation": 0.5,
                               "modulation_index": 2}, pr, (1, 3)))
        # mutation configured with strength 0 that the schedule raises afterwards
        g.append(("real_iwo", {"initial_population_size": 3, "max_population_size": 5, "min_number_of_seeds": 1,
                               "max_number_of_seeds": 2, "initial_deviation": 0.0, "final_deviation": 0.3,
                               "modulation_index": 2}, pr, (3, 5)))
        # the colony reaches its maximal size exactly (weeds + seeds = max_population_size)
        g.append(("real_iwo", {"initial_population_size": 2, "max_population_size": 4, "min_number_of_seeds": 1,
                               "max_number_of_seeds": 1, "initial_deviation": 0.01, "final_deviation": 0.5,
                               "modulation_index": 2}, pr, (2, 4)))
        for ip, mp in ([(3, 6)] if quick else [(1, 1), (3, 6), (5, 20)]):
            g.append(("real_iwo", {"initial_population_size": ip, "max_population_size": mp, "min_number_of_seeds": 1,
                                   "max_number_of_seeds": 3, "initial_deviation": 0.01, "final_deviation": 0.5,
                                   "modulation_index": 2}, pr, (min(ip, mp), mp)))
        for ps in ([3] if quick else [1, 3, 6]):
            g.append(("real_fa", {"pop_size": ps, "alpha": 0.25, "beta": 1.0, "gamma": 1.0, "delta": 0.97}, pr, (ps, ps)))
        g.append(("real_fa", {"pop_size": 3, "alpha": 0.25, "beta": 0.2, "gamma": 2.0, "delta": 0.97}, pr, (3, 3)))
        # the same template for a non-default evaluator identifier (a poisoned evaluator sits under the default one)
        g.append(("real_fa@A", {"pop_size": 3, "alpha": 0.25, "beta": 1.0, "gamma": 1.0, "delta": 0.97}, pr, (3, 3)))
        for ps in ([3] if quick else [1, 3, 8]):
            g.append(("real_bh", {"num_particles": ps}, pr, (ps, ps)))
        # CRO: parameter points chosen so that all four elementary reactions occur (synthesis needs low kinetic
        # energies w.r.t. beta, decomposition needs alpha small w.r.t. the hit counters)
        cro_points = [(4, 0.5, 5.0, 0.1, 3), (8, 0.2, 0.0, 1000.0, 3), (4, 0.9, 50.0, 0.1, 0), (1, 0.3, 5.0, 0.1, 3)]
        if not quick:
            cro_points += [(2, 0.5, 5.0, 0.1, 3), (12, 0.2, 0.0, 1000.0, 1), (8, 0.8, 1.0, 0.5, 0), (3, 0.1, 0.0, 1000.0, 3)]
        for ps, mc, ke, beta, alpha in cro_points:
            g.append(("real_cro", {"initial_population_size": ps, "mole_coll": mc, "kinetic_energy_lr": 0.2, "alpha": alpha, "beta": beta,
                                   "initial_kinetic_energy": ke, "buffer": 1.0, "on_wall_deviation": 0.1,
                                   "decomposition_deviation": 0.3}, pr, (1, 10 ** 6)))
    for pr in bits:
        for ps, ts in ([(4, 2)] if quick else [(4, 2), (1, 1), (6, 6)]):
            for rm, pm in ([(0.2, 1.0)] if quick else [(0.0, 1.0), (0.2, 0.5), (1.0, 1.0)]):
                g.append(("binary_ga", {"population_size": ps, "tournament_size": ts, "rm": rm, "pc": 0.7, "pm": pm}, pr, (ps, ps)))
    for pr in tsps:
        for ns in ([2] if quick else [2, 3, pr["dim"]]):
            g.append(("permutation_sa", {"t_0": 1.0, "alpha": 0.9, "num_swap": ns}, pr, (1, 1)))
            g.append(("permutation_ls", {"num_neighbors": 3, "num_swap": ns}, pr, (1, 1)))
            g.append(("permutation_ils", {"num_neighbors": 2, "num_swap": ns, "ls_iterations": 2}, pr, (1, 1)))
            g.append(("permutation_random_walk", {"num_swap": ns}, pr, (1, 1)))
        g.append(("permutation_rs", {}, pr, (1, 1)))
        for ants in ([3] if quick else [1, 3, 6]):
            for a, b in ([(1.0, 1.0), (1.0, 5.0)] if quick else [(1.0, 1.0), (0.0, 2.0), (2.0, 0.5), (1.0, 5.0)]):
                g.append(("ant_system", {"num_ants": ants, "alpha": a, "beta": b, "default_pheromones": 1.0, "evaporation": 0.1,
                                         "decay_coefficient": 1.0}, pr, (ants + 1, ants + 1)))
                g.append(("max_min_ant_system", {"num_ants": ants, "alpha": a, "beta": b, "default_pheromones": 0.5, "evaporation": 0.1,
                                                 "max_pheromones": 1.0, "min_pheromones": 0.1}, pr, (ants + 1, ants + 1)))
            # uniform weights: neither trails nor distances count
            g.append(("ant_system", {"num_ants": ants, "alpha": 0.0, "beta": 0.0, "default_pheromones": 1.0, "evaporation": 0.1,
                                     "decay_coefficient": 1.0}, pr, (ants + 1, ants + 1)))
            g.append(("ant_system", {"num_ants": ants, "alpha": 0.0, "beta": 2.0, "default_pheromones": 1.0, "evaporation": 1.0,
                                     "decay_coefficient": 1.0}, pr, (ants + 1, ants + 1)))
            for dflt in (5.0, 0.001):
                g.append(("max_min_ant_system", {"num_ants": ants, "alpha": 1.0, "beta": 1.0, "default_pheromones": dflt, "evaporation": 0.0,
                                                 "max_pheromones": 2.0, "min_pheromones": 0.1}, pr, (ants + 1, ants + 1)))
            # trails start on the upper bound and decay onto the lower one within a few passes
            g.append(("max_min_ant_system", {"num_ants": ants, "alpha": 1.0, "beta": 1.0, "default_pheromones": 1.0, "evaporation": 0.3,
                                             "max_pheromones": 1.0, "min_pheromones": 0.2}, pr, (ants + 1, ants + 1)))
            # the default level may lie outside the bounds: the first update has to bring every trail inside
            g.append(("max_min_ant_system", {"num_ants": ants, "alpha": 1.0, "beta": 1.0, "default_pheromones": 10.0, "evaporation": 0.05,
                                             "max_pheromones": 2.0, "min_pheromones": 0.1}, pr, (ants + 1, ants + 1)))
            g.append(("max_min_ant_system", {"num_ants": ants, "alpha": 1.0, "beta": 1.0, "default_pheromones": 0.001, "evaporation": 0.05,
                                             "max_pheromones": 2.0, "min_pheromones": 0.1}, pr, (ants + 1, ants + 1)))
    return g


# templates whose components only compare objective values: run on the walled sphere (+inf objectives) as well;
# the others do arithmetic on objective values (fitness-proportional seeds, energies), for which the
# properties do not state what infinite values should do
INF_OK = {"real_pso", "real_pso|evals", "real_pso|log4", "real_ga", "real_es", "real_de", "real_sa", "real_ls", "real_rs", "real_rw"}


# harness-built PSO configurations for C18 (not shipped templates: not part of the C16 / C05.. sweeps)
def pso_variant_specs(seeds, iters):
    out = []
    for prob in (REAL(2), REAL(3, 1, -4.0, 12.0)):
        w = prob["hi"] - prob["lo"]
        for t in ("real_pso@AG", "real_pso|scoped", "real_pso|phase2"):
            for n in iters:
                for s in seeds:
                    out.append({"run": len(out), "template": t, "params": {"num_particles": 4, "start_weight": 0.9, "end_weight": 0.4,
                                "c_one": 0.0 if t.endswith("AG") else 0.5, "c_two": 0.0 if t.endswith("AG") else 0.5, "v_max": 0.2 * w},
                                "n": n, "seed": s, "eval": "seq", "prob": prob, "size_lo": 0, "size_hi": 10 ** 6})
    return out


def pso_specs(quick, seeds, iters):
    """C18 only: further parameter points of the swarm templates.

    * inertia weights above 1 (`from_params` accepts every weight >= 0): the classic decreasing schedule 1.4 -> 0.4, an
      increasing one that crosses 1, constant weights above 1 -- without acceleration terms (the new velocity is exactly
      the stored weight times the old one) and with them (interval predicate `vrange`);
    * `real_pso|const`: the generic `pso` template WITHOUT a weight schedule (`inertia_weight_update: None`), i.e. a
      constant inertia weight -- the swarm's memories have to be kept all the same;
    * objective values on tiny and huge scales (sphere on a domain of width 2e-9 / 2e9): improvements of the swarm's best
      that are far below f64::EPSILON in absolute terms are improvements (memories are judged by rank)."""
    pts = []
    for pr in (REAL(2), REAL(3, 1, -4.0, 12.0)):
        w = pr["hi"] - pr["lo"]
        pts += [("real_pso", {"num_particles": 3, "start_weight": 1.4, "end_weight": 0.4, "c_one": 0.0, "c_two": 0.0, "v_max": 10.0 * w}, pr),
                ("real_pso", {"num_particles": 2, "start_weight": 0.8, "end_weight": 1.2, "c_one": 0.0, "c_two": 0.0, "v_max": 10.0 * w}, pr),
                ("real_pso", {"num_particles": 3, "start_weight": 1.3, "end_weight": 1.3, "c_one": 0.3, "c_two": 0.3, "v_max": 2.0 * w}, pr),
                ("real_pso", {"num_particles": 4, "start_weight": 2.0, "end_weight": 0.0, "c_one": 0.5, "c_two": 0.5, "v_max": 0.5 * w}, pr),
                ("real_pso|const", {"num_particles": 4, "start_weight": 0.7, "end_weight": 0.7, "c_one": 0.5, "c_two": 0.5, "v_max": 0.1 * w}, pr),
                ("real_pso|const", {"num_particles": 1, "start_weight": 1.2, "end_weight": 1.2, "c_one": 0.0, "c_two": 0.0, "v_max": 10.0 * w}, pr),
                ("real_pso|const", {"num_particles": 10, "start_weight": 0.4, "end_weight": 0.4, "c_one": 2.0, "c_two": 2.0, "v_max": 0.25 * w}, pr)]
    for pr in (REAL(2, 0, -1e-9, 1e-9), REAL(2, 0, -1e9, 1e9)):
        w = pr["hi"] - pr["lo"]
        pts += [("real_pso", {"num_particles": 5, "start_weight": 0.9, "end_weight": 0.4, "c_one": 0.5, "c_two": 0.5, "v_max": 0.1 * w}, pr),
                ("real_pso", {"num_particles": 3, "start_weight": 0.6, "end_weight": 0.2, "c_one": 2.0, "c_two": 2.0, "v_max": 0.5 * w}, pr),
                ("real_pso|const", {"num_particles": 4, "start_weight": 0.7, "end_weight": 0.7, "c_one": 1.0, "c_two": 1.0, "v_max": 0.2 * w}, pr)]
    out = []
    for (t, params, prob) in pts:
        for n in iters:
            for s in seeds:
                out.append({"run": len(out), "template": t, "params": params, "n": n, "seed": s, "eval": "seq", "prob": prob,
                            "size_lo": params["num_particles"], "size_hi": params["num_particles"]})
    return out


def cro_under_specs(quick, seeds, iters):
    """C20 only: `real_cro|under` -- the CRO template as a step of a heuristic that keeps a population of its own underneath
    the reaction's population (the documented stack layouts of the four updates are relative to the top of the stack)."""
    out = []
    points = [(4, 0.5, 5.0, 0.1, 3), (8, 0.2, 0.0, 1000.0, 3), (1, 0.3, 5.0, 0.1, 3)]
    if not quick:
        points += [(4, 0.9, 50.0, 0.1, 0), (12, 0.2, 0.0, 1000.0, 1)]
    for prob in (REAL(2), REAL(3, 1, -4.0, 12.0)):
        for ps, mc, ke, beta, alpha in points:
            for under in (3, 1):
                params = {"initial_population_size": ps, "mole_coll": mc, "kinetic_energy_lr": 0.2, "alpha": alpha, "beta": beta,
                          "initial_kinetic_energy": ke, "buffer": 1.0, "on_wall_deviation": 0.1, "decomposition_deviation": 0.3,
                          "under_size": under}
                for n in iters:
                    for s in seeds:
                        out.append({"run": len(out), "template": "real_cro|under", "params": params, "n": n, "seed": s, "eval": "seq",
                                    "prob": prob, "size_lo": 1, "size_hi": 10 ** 6})
    return out


def specs(quick, seeds, iters):
    out = []
    for (t, params, prob, (lo, hi)) in grid(quick):
        if prob.get("f") == 3 and prob.get("kind") == "real" and t not in INF_OK:
            continue
        for n in iters:
            if t == "real_pso|evals" and n < 2:
                continue    # the OR-ed evaluation budget lasts two passes: the run has n passes only for n >= 2
            for s in seeds:
                out.append({"run": len(out), "template": t, "params": params, "n": n, "seed": s, "eval": "seq", "prob": prob,
                            "size_lo": lo, "size_hi": hi})
    return out


def sa_specs(quick, seeds, iters):
    """C17 only: further parameter points of real_sa, and the pseudo-template `real_sa|nested` (the generic `sa` template
    used, in a Scope of its own, as the `constraints` step of the `sa` template: two SAs, two temperatures, two schedules).

    * schedules that boil first and freeze within the run: the random walk of the hot phase leaves the current solution
      worse than the tracked best individual, the frozen phase then only sees candidates relative to the CURRENT one;
    * objective values around 1e-18 and around 1e18 (absolute differences far below f64::EPSILON / far above 1 / EPSILON);
    * nested: outer hot / inner frozen, outer frozen / inner hot, both on ordinary schedules; inner runs of 0, 1 and 3 passes."""
    probs = [REAL(2), REAL(1, 1, 0.0, 4.0), REAL(2, 2, -2.0, 2.0), REAL(3, 3, -8.0, 8.0), REAL(2, 4, -5.0, 5.0)]
    if not quick:
        probs += [REAL(3, 5, -1.0, 1.0), REAL(5, 1, -4.0, 12.0), REAL(3, 0, 0.5, 0.75)]
    pts = []
    for pr in probs:
        w = pr["hi"] - pr["lo"]
        for t0, alpha in ((1e3, 0.3), (1e6, 0.05)) if quick else ((1e3, 0.3), (1e6, 0.05), (1e2, 0.6), (1e12, 0.01)):
            pts.append(("real_sa", {"t_0": t0, "alpha": alpha, "deviation": 0.15 * w}, pr))
        nested = [((1e9, 0.9), (1e-9, 0.5, 3)), ((1e-9, 0.9), (1e9, 0.5, 3)), ((1.0, 0.8), (2.0, 0.7, 1)), ((1e3, 0.3), (5.0, 0.25, 0))]
        if not quick:
            nested += [((1.0, 0.5), (1.0, 0.5, 2)), ((1e-3, 0.99), (1e3, 0.1, 6))]
        for (t0, alpha), (it0, ialpha, n) in nested:
            pts.append(("real_sa|nested", {"t_0": t0, "alpha": alpha, "deviation": 0.1 * w,
                                           "inner": {"t_0": it0, "alpha": ialpha, "deviation": 0.02 * w, "n": n}}, pr))
    # objective values on tiny and huge scales (sphere on a domain of width 2e-9 / 2e9: values and differences around
    # 1e-18 / 1e18), with temperatures of that scale, far below and far above it
    for pr, unit in ((REAL(2, 0, -1e-9, 1e-9), 1e-18), (REAL(2, 0, -1e9, 1e9), 1e18)):
        w = pr["hi"] - pr["lo"]
        for t0, alpha in ((unit, 0.9), (unit * 1e-12, 0.9), (unit * 1e9, 0.2)):
            pts.append(("real_sa", {"t_0": t0, "alpha": alpha, "deviation": 0.1 * w}, pr))
        pts.append(("real_sa|nested", {"t_0": unit * 1e-12, "alpha": 0.9, "deviation": 0.1 * w,
                                       "inner": {"t_0": unit * 1e12, "alpha": 0.5, "deviation": 0.02 * w, "n": 2}}, pr))
    # a sphere on top of a large base cost, on a domain so narrow that neighbouring solutions differ in the last places of
    # their objective values only (ulp = one unit in the last place of the base cost): frozen far below one such unit (a
    # candidate worse by a single unit is never accepted), around 1/30 of a unit, and of the order of a unit
    for pr, ulp in ((REAL(2, 6, -1e-6, 1e-6), 2.0 ** -43), (REAL(2, 7, -1e-4, 1e-4), 2.0 ** -31)):
        w = pr["hi"] - pr["lo"]
        for t0, alpha in ((ulp * 1e-4, 0.9), (ulp / 33.0, 0.99), (ulp, 0.95)):
            pts.append(("real_sa", {"t_0": t0, "alpha": alpha, "deviation": 0.1 * w}, pr))
    out = []
    for (t, params, prob) in pts:
        for n in iters:
            for s in seeds:
                out.append({"run": len(out), "template": t, "params": params, "n": n, "seed": s, "eval": "seq", "prob": prob,
                            "size_lo": 1, "size_hi": 1})
    return out


def component_specs(quick, seeds, iters):
    """'comp:' pseudo-templates: every shipped variation component between a selection (All, or FullyRandom(k) for odd /
    even parent counts) and an evaluation, on evaluated parents."""
    real = ["UniformCrossover_single", "UniformCrossover_both", "NPointCrossover_single", "NPointCrossover_both",
            "ArithmeticCrossover_single", "ArithmeticCrossover_both", "NormalMutation", "UniformMutation", "PartialRandomSpread"]
    bits = ["UniformCrossover_single", "UniformCrossover_both", "NPointCrossover_single", "NPointCrossover_both",
            "BitFlipMutation", "PartialRandomBitstring"]
    perm = ["CycleCrossover_single", "CycleCrossover_both", "SwapMutation", "ScrambleMutation", "InversionMutation",
            "InsertionMutation", "TranslocationMutation"]
    out = []
    shapes = [(4, 0), (3, 0), (5, 3)] if quick else [(1, 0), (2, 0), (3, 0), (4, 0), (5, 3), (6, 5), (4, 1)]
    pcs = [0.5, 1.0] if quick else [0.0, 0.5, 1.0]
    hetero = dict(REAL(3, 1, -4.0, 12.0), hetero=1)
    for c in ["Saturation_after_eval", "Toroidal_after_eval", "Mirror_after_eval", "CompleteOneTailedNormalCorrection_after_eval"]:
        for pr in (hetero, REAL(2, 0, -1.0, 1.0)):
            for n in iters:
                for s in seeds:
                    out.append({"run": len(out), "template": "comp:" + c, "params": {"popsize": 4, "select": 0, "pc": 1.0, "rm": 1.0,
                                "dev": 0.6 * (pr["hi"] - pr["lo"])}, "n": n, "seed": s, "eval": "seq", "prob": pr,
                                "size_lo": 0, "size_hi": 10 ** 6})
    # objectives that depend on WHERE a gene sits (weighted zeros; weighted completion times of a schedule, which is
    # not even rotation invariant), shortest containers included: moves across the container boundary are frequent
    groups = [(real, REAL(3, 1, -4.0, 12.0)), (bits, BITS(8)), (perm, TSP(6)),
              (bits, BITS(3, 1)), (perm, TSP(2, 5)), (perm, TSP(3, 5)), (perm, TSP(6, 5))]
    for comps, prob in groups:
        for c in comps:
            for popsize, select in shapes:
                for pc in (pcs if "Crossover" in c else [1.0]):
                    for n in iters:
                        for s in seeds:
                            out.append({"run": len(out), "template": "comp:" + c, "params": {"popsize": popsize, "select": select, "pc": pc, "rm": 0.5},
                                        "n": n, "seed": s, "eval": "seq", "prob": prob, "size_lo": 0, "size_hi": 10 ** 6})
    return out
