"""C13 — variation operators keep solutions well-formed and conserve parental genes (spec/Variation.tla)."""
import collections, json, os, re
import vlib

MANIFEST = {
    "modules": ["Variation"],
    "text": "The public helper functions (circular_swap/2, translocate_slice/2, multi-point, uniform, arithmetic, "
            "cycle crossover) are transcribed into TLA+ over integer sequences; TLC checks permutation closure, gene "
            "conservation, convexity and the agreement of the twin algorithms as invariants over the exhaustively "
            "enumerated bounded input space (all permutations up to length 4/5 with all index tuples, ranges and "
            "insertion points, identity/reversal up to 5/7, all parent pairs over two-letter alphabets up to length "
            "3/4 with all cut tuples and masks, all permutation pairs up to 4/5). Parents of UNEQUAL length, which "
            "the multi-point, uniform and arithmetic helpers accept, are enumerated in both orders (second parent of "
            "every other length up to 4/5, position-labelled parents of length 5/6 against mates of length n-2..n+1; "
            "all cut tuples inside the shorter parent in every order, all masks, all alphas): uniform and arithmetic "
            "crossover have exact oracles there too (positions both parents have are swapped / interpolated, the "
            "others kept), a multi-point crossover of unequal parents is judged by the relation C13 states (the "
            "children have the parents' lengths, every position inside the shorter parent holds the two parental genes, "
            "one in each child, every position beyond it the longer parent's gene), and TLC checks that a "
            "transcription of the helper's algorithm satisfies that relation and that replies with a lost / duplicated "
            "tail, gene or length are rejected. Every enumerated case is replayed on "
            "the real function and TLC validates the recorded reply against the oracle value / relation. The arithmetic crossover "
            "is additionally called on every pair of 21 extreme / far-apart finite genes (+-f64::MAX, +-1e308, 1e17 "
            "next to 0.1, +-f64::MIN_POSITIVE, 0) with 9 alphas from exactly 0 to exactly 1 (and on random vectors of "
            "them): genes reach the spec as ranks, child genes as position classes, and TLC requires every child gene "
            "to be finite, between the parental genes (4 ulp), conserved across the two children, and equal (4 ulp) to "
            "the parental gene the alpha selects at alpha = 0 and alpha = 1. The 17 mutation / recombination components "
            "are specified as relations between the populations before and after; TLC checks on a constructive model "
            "that the relation accepts every ideal behaviour, rejects corrupted ones and implies the clauses of C13, "
            "and validates seeded random executions of every component through the public Component API. The "
            "populations of the four pairing crossovers (n-point, uniform, cycle, arithmetic) contain DUPLICATES - "
            "identical adjacent parents, copies across pairs, converged populations: every partition pattern of up to "
            "3/4 individuals in the model, seeded patterns of 2..6 individuals on the code - with insert-single and "
            "insert-both and pc = 0 / inside / 1 (each combination is required to occur): offspring counts must follow "
            "pc and insert_both whatever the parents look like (pc = 1 and insert-single: exactly one child per pair), "
            "the n-point structure is demanded through an explaining cut set where the parents share genes, and with "
            "insert-both the genes of every position and the individual lengths are conserved as multisets. The "
            "n-point crossover, which accepts them, also runs on RAGGED populations (pairs of parents of unequal "
            "length in both orders, with duplicates): children per pair judged by the same relation as the helper. "
            "ArithmeticCrossover is part of the component model (individuals = tags, float predicates derived from "
            "the provenance of each output; wrong counts, kept identical parents, children outside the hull / not "
            "conserved are rejected). The DE crossovers run with duplicate mutants and mutants identical to their "
            "bases (the set of positions taken from the base must then exist instead of being read off). A case "
            "records the constructor used and the arguments given to it; the spec derives the parameters the "
            "execution must obey: every public constructor of every component is modelled (table compared at run time "
            "with the harness sweep and with the pub fns in the source) and swept, the built instance must serialise "
            "the parameters its constructor stands for, and the six identifier-generic components are executed under "
            "the identifiers Global, A, B next to sibling instances of other identifiers with other rates / "
            "strengths and with MutationRate / MutationStrength adapted through the state: each instance must obey "
            "the state of its own identifier (rate 0 leaves everything unchanged, invalid own rate / strength errs, "
            "also when an EARLIER instance of the same identifier with another rate / strength was initialised on the same "
            "state before it -- in the same scope or in an enclosing one, the executed instance then running in a child "
            "scope: its own init re-establishes its own parameters -- "
            "UniformMutation moves at most its own bound) and the parameter states read back must be the modelled "
            "ones. Parameter values are swept to the ends of their documented ranges - deviations / bounds exactly 0, "
            "f64::MIN_POSITIVE, 1e-300, ordinary, 1e300, 1e308 and f64::MAX (given to the constructor, to siblings, or "
            "written through MutationStrength; each required to occur), rates and probabilities -0, 5e-324, "
            "f64::MIN_POSITIVE, 1 - 2^-53, exactly 0.5, and just outside [0, 1], DE scaling factors from 5e-324 to 2: "
            "every documented value must be accepted and executed without Err or panic, a bound of 0 moves nothing. Right level: the helpers are pure functions on small discrete data (exhaustive enumeration "
            "decides them up to the bound), the components are stochastic (relational validation).",
    "technique": "TLA+ spec + TLC model checking (exhaustive enumeration of helper inputs) + TLC trace validation of "
                 "replayed cases and seeded random component executions",
    "design_ref": "DESIGN.md §6 C13",
    "note": "generic code exercised at i64/usize/f64/bool elements; real vectors reach the spec only through change "
            "masks, tags, ranks, position classes and harness-side predicates (between the parents / near a gene up "
            "to 4 ulp, conservation up to 8 ulp of the larger magnitude, move <= bound, DE formula up to 1e-9); "
            "PartialRandomBitstring::p is checked by class only (0, 1, exactly 0.5, inside)",
}

FN_INV = ("FnTotal PermutationClosure GeneConservation ArithConvex SwapMovesChosen TranslocateShape TwinSwap "
          "TwinTranslocate MultiPointTailSwaps CycleWhole ArithXConvex ArithXEnds ArithXAccepts ArithXRejects "
          "MultiPointUAccepts MultiPointUTwin MultiPointURejects")
COMP_INV = ("RelAccepts RelRejects ArithRejects CompNoFailure CompPermutationClosure CompDimensionKept CompRateZero "
            "CompRateZeroReal CompOffspringCount CompDEFormat CompGenesFromParents CompDEGenes CompStackKept "
            "CompOwnParameters CompInvalidRejected CompStrengthBound CompCtorVariant CompGenesConserved")

FN_OPS = ["circular_swap", "circular_swap2", "translocate_slice", "translocate_slice2", "multi_point", "uniform",
          "arithmetic", "arith_x", "cycle"]
ID_COMPS = ["NormalMutation", "UniformMutation", "PartialRandomSpread", "BitFlipMutation", "PartialRandomBitstring",
            "ScrambleMutation"]                  # struct<I: Identifier>: parameter states keyed by the identifier
STR_COMPS = ["NormalMutation", "UniformMutation"]   # ... with a MutationStrength state
# strength ladder of the harness (variation.rs STRENGTHS / Variation.tla StTop): 0, f64::MIN_POSITIVE, 1e-300, 0.125,
# 0.5, 2, 8, 1e300, 1e308, f64::MAX; the indices an executed instance must have been BUILT with and obeyed (8 = index 7
# is given to siblings and adaptations only)
ST_OWN = [1, 2, 3, 4, 5, 6, 8, 9, 10]
LADDER_N = 21                                    # size of the harness' table of extreme genes (variation.rs LADDER)
LADDER_SET = "{%s}" % ", ".join(str(k) for k in range(1, LADDER_N + 1))
COMPS = ["NormalMutation", "UniformMutation", "PartialRandomSpread", "BitFlipMutation", "PartialRandomBitstring",
         "ScrambleMutation", "SwapMutation", "InversionMutation", "InsertionMutation", "TranslocationMutation",
         "NPointCrossover", "UniformCrossover", "CycleCrossover", "ArithmeticCrossover", "DEMutation",
         "DEBinomialCrossover", "DEExponentialCrossover"]
MC_COMPS = [c for c in COMPS if c != "DEMutation"]   # (DEMutation: a float formula, recorded executions only)
CROSS = ["NPointCrossover", "UniformCrossover", "CycleCrossover", "ArithmeticCrossover"]   # pairing + insert_both
MC_CROSS = [c for c in CROSS if c in MC_COMPS]
UNEQUAL_OPS = ["multi_point", "uniform", "arithmetic"]      # helpers that accept parents of unequal length

BOUNDS = {
    "quick": dict(MaxPerm=4, ExtraLens="{5}", MaxPar=3, LabLens="{5}", MaxCyc=4, MaxArith=2,
                  ArithVals="ArithValsDefault", MaxArithX=1, ArithXVals=LADDER_SET, CompN=3, CompD=3),
    "thorough": dict(MaxPerm=5, ExtraLens="{6, 7}", MaxPar=4, LabLens="{5, 6}", MaxCyc=5, MaxArith=2,
                     ArithVals="ArithValsWide", MaxArithX=1, ArithXVals=LADDER_SET, CompN=4, CompD=4),
}


def cfg_mc(b):
    s = "SPECIFICATION Spec\nCONSTANTS\n"
    for k, v in b.items():
        s += "  %s %s %s\n" % (k, "<-" if k == "ArithVals" else "=", v)
    return s + "INVARIANT %s\nINVARIANT %s\nACTION_CONSTRAINT PrintCase\nCHECK_DEADLOCK FALSE\n" % (FN_INV, COMP_INV)


CFG_TRACE = "SPECIFICATION TraceSpec\nPOSTCONDITION TraceDone\nCHECK_DEADLOCK FALSE\n"


def _act(r):
    if r.get("kind") == "comp":
        return r["raw"]
    return r.get("act", {})


def _nontrivial(r, before, after):
    if r["kind"] == "fn":
        return r["res"]["k"] != "ok" or r["res"]["c1"] != r["act"]["p"]
    return r["res"]["k"] != "ok" or r["res"]["out"] != r["act"]["pin"]


DESCRIBE = {
    "state": lambda r: 0,
    "act": _act,
    "is_reset": lambda r: r.get("kind") == "reset",
    "nontrivial": _nontrivial,
}

RULE = ("cases = (helper function, arguments) pairs and (component, parameters, population, seed) executions on "
        "the real mahf code; generated by (B) the exhaustive enumeration of the bounded helper input space by TLC "
        "and (C) seeded random component executions and helper calls on longer inputs; a case is non-trivial if the "
        "output differs from the input or the reply is an error/panic; distinct = distinct argument tuples")


def parse_cases(path):
    """CASE lines (helper calls with the oracle reply) and CCASE lines (component model) of the MC run."""
    cases, comp = [], collections.Counter()
    ctors, sib, adapt = collections.Counter(), collections.Counter(), collections.Counter()
    shape = collections.Counter()       # (component, "dup" | "rag", insert_both, class of pc) of ok-executions
    with open(path) as f:
        for line in f:
            if line.startswith('<<"CASE", '):
                cases.append(json.loads(json.loads(line.rstrip("\n")[len('<<"CASE", '):-2])))
            elif line.startswith('<<"CCASE", '):
                m = re.match(r'<<"CCASE", "([^"]+)", "([^"]+)", (\d), "([^"]+)", (\d), (\d), (\d+), (\d+)>>', line)
                comp[(m.group(1), m.group(2), int(m.group(3)))] += 1
                ctors[(m.group(1), m.group(4))] += 1
                if m.group(5) == "1":
                    sib[m.group(1)] += 1
                if m.group(6) == "1":
                    adapt[m.group(1)] += 1
                for what, g in (("dup", 7), ("rag", 8)):
                    v = int(m.group(g)) - 1
                    if v >= 0 and m.group(2) == "ok":
                        shape[(m.group(1), what, v // 10, v % 10)] += 1
    return cases, comp, ctors, sib, adapt, shape


def write_scenarios(ctx, cases, name, chunk=2000):
    by_op = collections.defaultdict(list)
    for c in cases:
        by_op[c["act"]["op"]].append(c["act"])
    path = os.path.join(ctx.work, name + ".scen.ndjson")
    run = 0
    with open(path, "w") as f:
        for op in sorted(by_op):
            acts = by_op[op]
            for k in range(0, len(acts), chunk):
                f.write(json.dumps({"run": run, "acts": acts[k:k + chunk]}) + "\n")
                run += 1
    vlib.log("[case] %s: %d enumerated helper calls -> %d scenarios (%s)" % (
        name, len(cases), run, ", ".join("%s=%d" % (o, len(by_op[o])) for o in sorted(by_op))))
    return path, by_op


def repo_dir():
    """The mahf tree the harness is built against (harness/Cargo.toml)."""
    toml = open(os.path.join(vlib.HARNESS_DIR, "Cargo.toml")).read()
    return re.search(r'mahf\s*=\s*\{\s*path\s*=\s*"([^"]+)"', toml).group(1)


def source_ctors():
    """Every `pub fn` of the inherent impl blocks of the variation components in the source."""
    found = collections.defaultdict(set)
    for rel in ("mutation/common.rs", "mutation/de.rs", "recombination/common.rs", "recombination/de.rs"):
        cur = None
        for line in open(os.path.join(repo_dir(), "src/components", rel)):
            m = re.match(r'impl(?:<[^>]*>)?\s+(\w+)(?:<[^>]*>)?\s*\{', line)
            if m:
                cur = m.group(1)
            elif re.match(r'impl\b', line):
                cur = None                                # trait impl
            elif line.startswith("}"):
                cur = None
            m = re.match(r'\s+pub fn (\w+)', line)
            if m and cur in COMPS:
                found[cur].add(m.group(1))
    return {c: sorted(v) for c, v in found.items()}


def check_ctor_tables(ctx, mc_out):
    """The constructor table of the spec, the sweep of the harness and the source agree (else the check is
    incomplete: tool error, never a verdict about the code)."""
    spec = None
    for line in open(mc_out):
        if line.startswith('<<"CTORS", '):
            spec = json.loads(json.loads(line.rstrip("\n")[len('<<"CTORS", '):-2]))
    if spec is None:
        raise vlib.ToolError("the model did not print its constructor table")
    spec = {c: sorted(v) for c, v in spec.items()}
    hp = os.path.join(ctx.work, "ctors.ndjson")
    ctx.harness("variation", "ctors", out=hp)
    har = {r["c"]: sorted(r["ctors"]) for r in map(json.loads, open(hp))}
    src = source_ctors()
    for c in COMPS:
        if not (spec.get(c) == har.get(c) == src.get(c)):
            raise vlib.ToolError("constructors of %s: spec %s, harness %s, source %s - extend Ctors in "
                                 "spec/Variation.tla and ctors()/make_* in variation.rs" %
                                 (c, spec.get(c), har.get(c), src.get(c)))
    return spec


def run(ctx):
    q = ctx.quick
    b = BOUNDS["quick" if q else "thorough"]
    # (A) design check + enumeration of the bounded input space (one TLC run does both)
    mc = ctx.tlc_mc("MC_Variation", cfg_mc(b), "mc", workers=2 if q else 4, timeout=2400)
    cases, comp, mc_ctors, mc_sib, mc_adapt, mc_shape = parse_cases(mc["out"])
    scen, by_op = write_scenarios(ctx, cases, "cases")
    missing = [o for o in FN_OPS if not by_op.get(o)]
    if missing:
        raise vlib.ToolError("vacuous model: helper never enumerated: %s" % missing)
    # parents of unequal length, in both orders, for every helper that accepts them
    for o in UNEQUAL_OPS:
        longer = sum(1 for a in by_op[o] if len(a["p"]) > len(a["q"]))
        shorter = sum(1 for a in by_op[o] if len(a["p"]) < len(a["q"]))
        if not longer or not shorter:
            raise vlib.ToolError("vacuous model: %s never enumerated for parents of unequal length (first longer: %d, "
                                 "first shorter: %d)" % (o, longer, shorter))
    # populations with identical adjacent parents for every modelled crossover, ragged ones for the n-point
    # crossover: insert-single and insert-both, pc = 0 / inside / 1
    missing = [(c, w, both, pr) for c in MC_CROSS for w in ("dup", "rag") for both in (0, 1) for pr in (0, 1, 2)
               if (w == "dup" or c == "NPointCrossover") and not mc_shape[(c, w, both, pr)]]
    if missing:
        raise vlib.ToolError("vacuous component model: population shape never modelled: %s" % missing)
    seen_ok = {c for (c, k, ch) in comp if k == "ok" and ch == 1}
    missing = [c for c in MC_COMPS if c not in seen_ok]
    if missing:
        raise vlib.ToolError("vacuous component model: no changing ok-execution of %s" % missing)
    for k in ("err", "ctor_err"):
        if not any(kk == k for (_, kk, _) in comp):
            raise vlib.ToolError("vacuous component model: reply kind %s never generated" % k)
    ctors = check_ctor_tables(ctx, mc["out"])
    missing = [(c, ct) for c in MC_COMPS for ct in ctors[c] if not mc_ctors[(c, ct)]]
    if missing:
        raise vlib.ToolError("vacuous component model: constructor never modelled: %s" % missing)
    missing = [c for c in ID_COMPS if not mc_sib[c] or not mc_adapt[c]]
    if missing:
        raise vlib.ToolError("vacuous component model: no sibling instance / adaptation for %s" % missing)
    # (B) spec -> impl: every enumerated helper call replayed on the real function
    tr = os.path.join(ctx.work, "cases.trace.ndjson")
    ctx.harness("variation", "replay", **{"in": scen, "out": tr})
    ctx.validate("Trace_Variation", CFG_TRACE, tr, "cases", DESCRIBE, {"driver": "variation"}, max_rejections=4)
    # (C) impl -> spec: seeded random executions of every component (every constructor in turn, identifiers,
    #     siblings, adaptations) + helper calls on longer inputs
    tr2 = os.path.join(ctx.work, "random.trace.ndjson")
    ctx.harness("variation", "random", out=tr2, seed=ctx.seed, n=600 if q else 15000, nfn=3000 if q else 60000,
                maxlen=10 if q else 12)
    recs = [json.loads(l) for l in open(tr2)]
    comps = [r for r in recs if r.get("kind") == "comp"]
    seen = collections.Counter((r["act"]["c"], r["res"]["k"]) for r in comps)
    seen_ct = collections.Counter((r["act"]["c"], r["act"]["ctor"]) for r in comps if r["res"]["k"] == "ok")
    # strength of an instance that ran with its own built strength and a rate that mutates (class inside or one)
    seen_st = collections.Counter((r["act"]["c"], r["act"]["st"]) for r in comps
                                  if r["res"]["k"] == "ok" and r["act"]["c"] in STR_COMPS
                                  and not any(ad["w"] == 2 and ad["id"] == r["act"]["id"] for ad in r["act"]["adapt"])
                                  and r["res"]["reg"][["Global", "A", "B"].index(r["act"]["id"])][0] in (1, 2))
    # identifier coverage: an instance under a non-default identifier next to a Global sibling whose rate is of
    # another class; an adapted instance
    # ... and an EARLIER instance under the executed instance's own identifier (same scope: "prior", enclosing scope:
    # "prior_up") whose rate mutates while the executed instance was built with rate 0 and never adapted
    ids = {"sib": collections.Counter(), "adapt": collections.Counter(), "sib_strength": collections.Counter(),
           "prior": collections.Counter(), "prior_up": collections.Counter()}
    for r in comps:
        a = r["act"]
        if r["res"]["k"] != "ok":
            continue
        reg = r["res"]["reg"]
        if a["id"] != "Global" and any(s["id"] == "Global" for s in a["sibs"]) and reg and \
                reg[0][0] != reg[["Global", "A", "B"].index(a["id"])][0]:
            ids["sib"][a["c"]] += 1
        if a["id"] != "Global" and any(s["id"] == "Global" for s in a["sibs"]) and reg and \
                reg[0][1] != reg[["Global", "A", "B"].index(a["id"])][1]:
            ids["sib_strength"][a["c"]] += 1
        if any(ad["id"] == a["id"] for ad in a["adapt"]):
            ids["adapt"][a["c"]] += 1
        elif a["pr"] == 0:
            for s in a["sibs"]:
                if s["id"] == a["id"] and s["pr"] in (1, 2):
                    ids["prior_up" if s["up"] else "prior"][a["c"]] += 1
    # population shapes of the crossovers: an identical adjacent pair of parents (pin rows are tags / labels, so
    # equal rows = bit-identical parents), a pair of parents of unequal length (in both orders)
    shapes = collections.Counter()
    for r in comps:
        a, pin = r["act"], r["act"]["pin"]
        if a["c"] not in CROSS or r["res"]["k"] != "ok":
            continue
        both = {"new_insert_single": 0, "new_insert_both": 1}.get(a["ctor"], a["both"])
        pairs = [(pin[k], pin[k + 1]) for k in range(0, len(pin) - 1, 2)]
        if any(x == y for x, y in pairs):
            shapes[(a["c"], "dup", both, a["pr"])] += 1
        if any(len(x) > len(y) for x, y in pairs):
            shapes[(a["c"], "long-short", both, a["pr"])] += 1
        if any(len(x) < len(y) for x, y in pairs):
            shapes[(a["c"], "short-long", both, a["pr"])] += 1
    fns = collections.Counter((r["act"]["op"], (len(r["act"]["p"]) > len(r["act"]["q"])) - (len(r["act"]["p"]) < len(r["act"]["q"])))
                              for r in recs if r.get("kind") == "fn")
    ctx.validate("Trace_Variation", CFG_TRACE, tr2, "random", DESCRIBE, {"driver": "variation"}, max_rejections=8)
    if not ctx.violations:
        missing = [(c, w, both, pr) for c in CROSS for w in ("dup", "long-short", "short-long") for both in (0, 1)
                   for pr in (0, 1, 2) if (w == "dup" or c == "NPointCrossover") and not shapes[(c, w, both, pr)]]
        if missing:
            raise vlib.ToolError("vacuous random run: crossover never executed on this population shape "
                                 "(component, shape, insert_both, class of pc): %s" % missing)
        missing = [(o, d) for o in UNEQUAL_OPS for d in (-1, 1) if not fns[(o, d)]]
        if missing:
            raise vlib.ToolError("vacuous random run: helper never called on parents of unequal length: %s" % missing)
        missing = [c for c in COMPS if seen[(c, "ok")] == 0]
        if missing:
            raise vlib.ToolError("vacuous random run: no ok-execution recorded for %s" % missing)
        missing = [(c, ct) for c in COMPS for ct in ctors[c] if seen_ct[(c, ct)] == 0]
        if missing:
            raise vlib.ToolError("vacuous random run: no ok-execution through constructor %s" % missing)
        missing = [(c, st) for c in STR_COMPS for st in ST_OWN if seen_st[(c, st)] == 0]
        if missing:
            raise vlib.ToolError("vacuous random run: no mutating ok-execution at strength index %s" % missing)
        missing = [(k, c) for k in ids for c in (STR_COMPS if k == "sib_strength" else ID_COMPS) if ids[k][c] == 0]
        if missing:
            raise vlib.ToolError("vacuous random run: identifier scenario never executed: %s" % missing)
    if not any(r.get("kind") == "fn" and r["act"]["op"] == "arith_x" for r in recs):
        raise vlib.ToolError("vacuous random run: no arithmetic crossover on extreme genes")
    # (C') NPointCrossover with a number of points outside 1..dim-1 (undocumented range), one run per case
    tr3 = os.path.join(ctx.work, "edge.trace.ndjson")
    ctx.harness("variation", "edge", out=tr3, seed=ctx.seed, n=3 if q else 12)
    ctx.validate("Trace_Variation", CFG_TRACE, tr3, "edge", DESCRIBE, {"driver": "variation"}, max_rejections=40)
    ctx.assumptions += [
        "helper input space bounded by %s" % json.dumps(b),
        "helpers are generic in the element type: enumerated at i64, other element types are relabelings",
        "parents of unequal length: helpers multi_point / uniform / arithmetic in both orders; cuts inside the shorter "
        "parent (as the component draws them), masks that are false beyond the shorter parent (a set bit there "
        "indexes past the shorter child and panics), masks / alphas at least as long as the longer parent (contract); "
        "which n-point crossover the helper returns for unequal parents is not documented (with cut tuples that are "
        "not ascending it has fewer than n switch points), so only lengths and gene conservation are demanded there",
        "components on ragged populations: NPointCrossover only - UniformCrossover / ArithmeticCrossover draw a mask / "
        "alphas of the shorter length and are rejected by the helper contract (panic), CycleCrossover requires equal "
        "lengths; the documentation of VectorProblem (one dimension = length of every solution) does not make such "
        "populations valid, so nothing is claimed for them",
        "duplicates: copy patterns = identical adjacent pairs / converged / selection with replacement from n/2 "
        "individuals, populations of 2..6; position-labelled genes, permutations, real vectors (box and extreme values)",
        "arithmetic crossover on extreme genes: all pairs of the %d table values (+-f64::MAX ... +-f64::MIN_POSITIVE, "
        "0) x 9 alphas (0, 2^-60, .., 1-2^-53, 1) enumerated for length 1, random vectors up to the maximal length; "
        "'between the parents' = within the interval widened by 4 ulp of each end (rounding of two products and a "
        "sum), 'conserved' = sum of the children equals the sum of the parents up to 8 ulp of the larger magnitude"
        % LADDER_N,
        "component model (TLC) bounded by populations <= %d, dimension <= %d (ragged: lengths d, d + 1); "
        "ArithmeticCrossover is modelled over tags with provenance-derived predicates; DEMutation is validated on "
        "recorded executions only (float formula)" % (b["CompN"], b["CompD"]),
        "constructors: the table Ctors of the spec = the sweep of the harness = every pub fn of the components' "
        "inherent impl blocks in the source (compared at run time); identifiers Global, A, B",
        "random component executions: populations 0..5 (0..6 with duplicates), dimensions 1..8 (ragged: 2..9), rates in "
        "{0, -0, 1, inside (0,1) incl. 5e-324, f64::MIN_POSITIVE, 1e-300, 1 - 2^-53 and exactly 0.5, outside [0,1] incl. "
        "1 + 2^-52, -5e-324, +-f64::MAX}, std_dev / bound in {0, f64::MIN_POSITIVE, 1e-300, 0.125, 0.5, 2, 8, 1e300, "
        "1e308, f64::MAX, NaN} (every finite non-negative value is a documented deviation / bound: the documentation "
        "describes N(0, std_dev) and [-bound, bound] and the guard is `bound >= 0`), DE scaling f in {5e-324, "
        "f64::MIN_POSITIVE, 1e-300, 1e-17, 0.5, 1, 2} (documented (0, 2]); real populations of the mutations from the "
        "box [-4,12) with every fifth coordinate exactly 0, of ArithmeticCrossover from the box or from the table of "
        "extreme values",
        "a NormalMutation with a deviation >= 1e308 produces infinite coordinates by plain arithmetic (deviation times "
        "a normal deviate); C13 says nothing about that, so finiteness is demanded below that deviation only; the "
        "move of a UniformMutation is compared with the ladder up to 4 ulp of the larger of the old and the new "
        "coordinate (exactly for a coordinate that was 0)",
        "InversionMutation/TranslocationMutation/SwapMutation exercised for dimension >= 2",
    ]
    return ctx.finish(RULE)


def replay(ctx, rp):
    scen = os.path.join(ctx.work, "replay.scen.ndjson")
    with open(scen, "w") as f:
        f.write(json.dumps({"run": 0, "acts": rp["acts"]}) + "\n")
    tr = os.path.join(ctx.work, "replay.trace.ndjson")
    ctx.harness("variation", "replay", **{"in": scen, "out": tr})
    ctx.validate("Trace_Variation", CFG_TRACE, tr, "replay", DESCRIBE, rp["meta"])
    return ctx.finish(RULE)
