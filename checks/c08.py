"""C08 — same seed, same run: independent of evaluator, threads, scheduling and cloning (ParEval.tla, Trace_Same.tla)."""
import json, os
import vlib
from checks.templates_grid import specs

MANIFEST = {
    "modules": ["ParEval", "Trace_ParEval", "Trace_Same"],
    "text": "ParEval.tla models parallel evaluation as workers claiming and finishing individuals in any order; TLC checks "
            "over ALL interleavings (population sizes 0..4, 3 workers, all value assignments) that every schedule ends in "
            "the sequential result (Confluent), each individual is evaluated exactly once with the right value (OnceEach), "
            "no randomness is drawn (NoRandomness) and no schedule gets stuck. Binding 1: the objective-side event log "
            "(thread, start/end, solution) of every evaluation step of real rayon runs (pools 1,2,3,8,16, with and without "
            "perturbed call timing) is validated by TLC as a legal ParEval interleaving ending in the expected values with "
            "zero generator draws (a draw-counting generator is supplied). Binding 2 (Trace_Same.tla): for templates x "
            "seeds, a stand-alone sequential reference run (fresh configuration object, fresh thread) is followed by "
            "variants, one class for everything that is not configuration / problem / seed (Required): the same again, a "
            "cloned configuration, parallel under each pool size x timing, the generator supplied through the entry API "
            "(or_insert / or_insert_with) or a contains-guarded insert, the same object after it solved a bigger / smaller / "
            "other instance on this thread or on another one, a clone of such a used object, a thread that ran another "
            "object on another instance before; every variant must produce, step by step, the reference run's digests (all "
            "populations with solutions and objective bits, best, memories, counters, finally the log) and must leave the "
            "supplied generator in place; a group is complete only if every class was shown. Child generators: same seed => "
            "same children, different seeds => different streams, no draw before the first component whichever way the "
            "generator is supplied. par_experiment: batches over instances of different sizes (random search, GA with "
            "uniform crossover on real and binary instances, both ant systems on TSP instances) under pools 1/2/4/16: every "
            "per-run log decodes to the log of the stand-alone run (fresh object, fresh thread, run number as seed).",
    "technique": "TLA+ spec + TLC model checking of all interleavings + TLC trace validation of real schedules and of run digests",
    "design_ref": "DESIGN.md §6 C08",
    "note": "rayon's scheduler cannot be enumerated: real schedules are sampled (pool sizes x perturbed timings), the model's are exhaustive",
}

RULE = ("cases = (i) all interleavings of the bounded ParEval model; (ii) recorded claim/finish events of real parallel "
        "evaluation steps; (iii) per-step digests of reference and variant runs, child-generator records, experiment-runner "
        "records; non-trivial = every digest/claim/finish record; distinct = distinct records")

DESC_SAME = {
    "state": lambda r: r.get("digest", r.get("kids", r["ev"])),
    "act": lambda r: {"ev": r["ev"], "variant": r.get("variant", ""), "d": r.get("digest", "")},
    "is_reset": lambda r: r["ev"] in ("ref_start",),
    "nontrivial": lambda r, before, after: True,
}
DESC_PAR = {
    "state": lambda r: [r["ev"], r.get("w"), r.get("i"), r.get("want"), r.get("objs")],
    "act": lambda r: {"ev": r["ev"], "w": r.get("w", 0), "i": r.get("i", 0)},
    "is_reset": lambda r: r["ev"] == "begin",
    "nontrivial": lambda r, before, after: True,
}

TEMPLATES_Q = ["real_ga", "real_pso", "real_de", "real_cro", "binary_ga", "ant_system", "real_iwo", "real_fa", "real_bh"]
# templates whose randomness-dependent branches are reached only after several passes (the swarm has to collapse first)
LONG = {"real_bh": 30}
# parameter sets to prefer when one set per template is taken: parameters that a copy could mix up must differ
PREFER = {"real_fa": lambda p: p["beta"] != p["gamma"]}
# harness-built configurations (not shipped templates): diversity measures logged every iteration; a warm start whose
# individuals carry placeholder objective values before the first evaluation
EXTRA = [("real_ga|div", {"population_size": 24}), ("real_ga|warm", {"population_size": 12}),
         ("real_de|ctb", {"population_size": 12})]


def run(ctx):
    q = ctx.quick
    ctx.tlc_mc("ParEval", "SPECIFICATION PSpec\nCONSTANTS\n  MaxN = %d\n  Workers = {1, 2, 3}\n  Vals = {1, 2}\nINVARIANT Confluent OnceEach "
               "NoRandomness NoStuck\nCHECK_DEADLOCK FALSE\n" % (4 if q else 5), "mc-pareval", workers=4 if q else 10, timeout=3000)
    seen, groups = set(), []
    for s in specs(True, [ctx.seed] if q else [ctx.seed, ctx.seed + 1, ctx.seed + 2], [4] if q else [3, 12]):
        if q and s["template"] not in TEMPLATES_Q:
            continue
        if s["template"].endswith("@A") or s["template"].endswith("|log4"):
            continue    # the same configurations as their base templates, set up for other checks (identifier A / log rule)
        if s["template"] in PREFER and not PREFER[s["template"]](s["params"]):
            continue
        key = (s["template"], s["seed"], s["n"])
        if key in seen:          # one parameter set per template
            continue
        seen.add(key)
        s = dict(s, pools=[1, 2, 8] if q else [1, 2, 3, 8, 16])
        if s["template"] in LONG:
            s["n"] = LONG[s["template"]]
        groups.append(s)
    for t, params in EXTRA:
        for seed in ([ctx.seed] if q else [ctx.seed, ctx.seed + 1, ctx.seed + 2]):
            groups.append({"run": len(groups), "template": t, "params": params, "n": 6 if q else 25, "seed": seed, "eval": "seq",
                           "prob": {"kind": "real", "f": 1, "dim": 5, "lo": -4.0, "hi": 12.0}, "size_lo": 0, "size_hi": 10 ** 6,
                           "pools": [1, 2, 3, 8] if q else [1, 2, 3, 5, 8, 16]})
    spath = os.path.join(ctx.work, "groups.specs.ndjson")
    with open(spath, "w") as f:
        for s in groups:
            f.write(json.dumps(s) + "\n")
    tr = os.path.join(ctx.work, "same.trace.ndjson")
    par = os.path.join(ctx.work, "pareval.trace.ndjson")
    ctx.harness("determinism", "groups", **{"in": spath, "out": tr, "par-out": par, "seed": ctx.seed, "exp-runs": 3 if q else 8})
    ctx.validate("Trace_Same", "SPECIFICATION TraceSpec\nPOSTCONDITION TraceDone\nCHECK_DEADLOCK FALSE\n", tr, "same", DESC_SAME,
                 {"driver": "determinism"}, timeout=3000)
    ctx.validate("Trace_ParEval", "SPECIFICATION TraceSpec\nCONSTANTS\n  MaxN = 0\n  Workers = {%s}\n  Vals = {1}\nPOSTCONDITION TraceDone\n"
                 "CHECK_DEADLOCK FALSE\n" % ", ".join(map(str, range(1, 40))), par, "pareval", DESC_PAR, {"driver": "determinism-par"},
                 timeout=3000)
    ctx.assumptions += ["digests are FNV-1a hashes of the canonical text of everything the step observer sees (floats by bit pattern)"]
    return ctx.finish(RULE)


def replay(ctx, rp):
    # a rejected group is re-run from its specification
    raise vlib.ToolError("replay of C08 groups: rerun ./check C08 with VERIF_SEED=%s (groups are deterministic in the seed)" % rp.get("seed"))
