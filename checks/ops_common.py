"""Shared pieces of the C11 / C12 / C17 checks (spec/Operators.tla, harness driver `operators`)."""
import json, os, re
import vlib

SEL_OPS = ["all", "none", "clone_single", "fully_random", "without_rep", "roulette", "sus", "tournament",
           "linear_rank", "exp_rank", "iwo", "de_rand", "de_best", "de_ctb"]
HELPER_OPS = ["weights", "reverse_rank"]
REPL_OPS = ["discard", "generational", "merge", "mu_plus_lambda", "random_repl", "keep_better"]
SA_OPS = ["sa_accept", "cool", "nested", "update_best"]
NO_BEST = -9

SEL_PROPS = ("SourceUntouched PushesExactlyOne CopiesOnly CountAsRequested AllNoneDistinct "
             "ErrorsAsDocumented TournamentWhole WeightsMonotone IwoMonotone CoolOnce")
REPL_PROPS = "TwoBecomeOne OnlyFromBoth ContentAsNamed UnequalSizesErr CoolOnce"
SA_PROPS = "SurvivorOnly Metropolis CoolOnce BestApart"

# rank -> objective value tables used when TLC-enumerated cases are replayed (ranks 0..5):
# all positive / mixed with zero / all negative / negative up to zero, then positive.
# The model's universes tie distinct individuals at rank 1 (tags 2 and 3), so that is where the value zero sits:
# "+-0.0" = the number zero, carried as +0.0 by odd tags and as -0.0 by even tags, "-+0.0" the other way round
# (harness/src/problems_ops.rs): equal as numbers, different bit patterns, one rank -- a tie for every operator,
# enumerated by TLC in both parent / offspring arrangements.
VALUE_MAPS = [
    ["1.0", "2.5", "4.0", "7.0", "11.0", "16.5"],
    ["-3.0", "+-0.0", "2.0", "5.5", "8.0", "13.0"],
    ["-40.0", "-30.5", "-20.0", "-10.0", "-5.0", "-1.0"],
    ["-6.5", "-+0.0", "0.5", "1.0", "2.0", "3.5"],
]
OFFSETS = ["0.1", "0.0", "3.0", "1.0"]
BASES = ["0.5", "0.9", "0.2"]


def sset(xs):
    return "{" + ", ".join('"%s"' % x for x in xs) + "}"


def cfg_mc(mode, ops, props, ind, maxlen, maxn, export=False, inv=""):
    s = ("CONSTANTS\n  Ops = %s\n  LoadStacks <- McLoadStacks\n  MaxN = %d\n  Ind <- %s\n  MaxLen = %d\n"
         "  Mode = \"%s\"\nCHECK_DEADLOCK FALSE\n" % (sset(ops), maxn, ind, maxlen, mode))
    if export:
        return "SPECIFICATION ExportSpec\nACTION_CONSTRAINT PrintCase\n" + s
    return "SPECIFICATION McSpec\nINVARIANT TypeOK Total %s\nPROPERTY %s\n" % (inv, props) + s


CFG_TRACE = ("SPECIFICATION TraceSpec\nCONSTANTS\n  Ops = {}\n  LoadStacks = {}\n  MaxN = 0\n"
             "POSTCONDITION TraceDone\nCHECK_DEADLOCK FALSE\n")

DESCRIBE = {
    "state": lambda r: [r["stack"], r["temp"], r.get("best", NO_BEST)],
    "act": lambda r: r["act"],
    "is_reset": lambda r: r["act"]["op"] == "reset",
    # set-up calls are not cases; a case is non-trivial if the component changed the stack /
    # temperature or answered with an error / panic / absent reply
    "nontrivial": lambda r, before, after: r["act"]["op"] not in ("load", "set_top") and (
        before != after or r["res"]["k"] != "ok" or bool(r["res"]["w"])),
}


def parse_cases(path):
    """CASE lines of an export run -> list of {stack, best, act}."""
    pre = '<<"CASE", '
    out = []
    with open(path) as f:
        for line in f:
            if line.startswith(pre):
                out.append(json.loads(json.loads(line.rstrip("\n")[len(pre):-2])))
    return out


def load_act(stack, best=NO_BEST):
    return {"op": "load", "n": 0, "k": 0, "st": stack, "pc": "-", "lo": 0, "hi": 0, "last": 0, "b": best}


def hdr(seed, vm=0, off="0.1", base="0.5", t0="2.0", alpha="0.9", cell_n=0):
    return {"vals": VALUE_MAPS[vm % len(VALUE_MAPS)], "seed": seed, "t0": t0, "alpha": alpha, "off": off,
            "base": base, "cell_n": cell_n}


def scenarios_from_cases(ctx, cases, name, variants, t0_for=None):
    """One run per (loaded stack and best, variant): load, call, load, call, ...  Variant v fixes the value map,
    the proportional-weight offset, the exponential-rank base and the RNG seed.  SA (t0_for given): one run per
    probability class; t0_for(pc, nested) -> (t_0 of the run's own acceptance, t_0 of an SA step nested in a Scope)."""
    by_stack = {}
    for c in cases:
        by_stack.setdefault(json.dumps([c["stack"], c.get("best", NO_BEST)]), []).append(c["act"])
    path = os.path.join(ctx.work, name + ".scen.ndjson")
    nruns = ncases = 0
    with open(path, "w") as f:
        for sk in sorted(by_stack):
            stack, best = json.loads(sk)
            for v in range(variants):
                groups = [by_stack[sk]]
                if t0_for:     # SA: the temperature decides the probability class; one run per class
                    groups = [[a for a in by_stack[sk] if a["pc"] == pc and (a["op"] == "nested") == nested]
                              for pc in ("-", "zero", "mid", "one") for nested in (False, True)]
                for acts in groups:
                    if not acts:
                        continue
                    seq = []
                    for a in acts:
                        seq += [load_act(stack, best), a]
                    h = hdr(ctx.seed * 1000003 + nruns, vm=v, off=OFFSETS[v % len(OFFSETS)],
                            base=BASES[v % len(BASES)])
                    if t0_for:
                        h["t0"], h["t0_in"] = t0_for(acts[0]["pc"], acts[0]["op"] == "nested")
                    f.write(json.dumps({"run": nruns, "hdr": h, "acts": seq}) + "\n")
                    nruns += 1
                    ncases += len(acts)
    vlib.log("[case] %s: %d enumerated (stack, call) cases x %d variants -> %d runs, %d executions" %
             (name, len(cases), variants, nruns, ncases))
    return path


def ops_vacuity(cases, required, what):
    seen = {c["act"]["op"] for c in cases}
    missing = [x for x in required if x not in seen]
    if missing:
        raise vlib.ToolError("vacuous model: %s never enabled: %s" % (what, missing))


def trace_vacuity(trace_path, required, what):
    seen = set()
    with open(trace_path) as f:
        for line in f:
            m = re.search(r'"op":"([a-z_]+)"', line)
            if m:
                seen.add(m.group(1))
    missing = [x for x in required if x not in seen]
    if missing:
        raise vlib.ToolError("vacuous trace: %s never executed: %s" % (what, missing))


def replay(ctx, rp, rule):
    scen = os.path.join(ctx.work, "replay.scen.ndjson")
    with open(scen, "w") as f:
        f.write(json.dumps({"run": 0, "hdr": rp["header"]["hdr"], "acts": rp["acts"]}) + "\n")
    tr = os.path.join(ctx.work, "replay.trace.ndjson")
    ctx.harness("operators", "replay", **{"in": scen, "out": tr})
    ctx.validate("Trace_Operators", CFG_TRACE, tr, "replay", DESCRIBE, rp["meta"])
    return ctx.finish(rule)
