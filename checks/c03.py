"""C03 — configurations execute as structured programs with a fixed lifecycle (spec/Exec.tla)."""
import json, os
import vlib

MANIFEST = {
    "modules": ["Exec"],
    "text": "Exec.tla is a reference interpreter for the builder grammar (sequence / while / if / if-else / scope, "
            "init -> require -> execute, scope push/pop, pass counter, single fault injection; leaves create their state by "
            "insert or through the get-or-create entry accessors). TLC enumerates ALL "
            "programs up to a statement bound x all condition scripts x all single faults and checks eight lifecycle "
            "properties stated over the event sequence (independently of the tree walk). Every enumerated case is "
            "then built with Configuration::builder() from instrumented leaves/conditions and run with "
            "Configuration::run on a caller-prepared State; TLC validates each recorded event (phase, node path, whole "
            "scope-stack snapshot, condition outcome, failure flag) and the end record (result, failing node, depth, "
            "caller's root scope) against the interpreter. Larger seeded random trees (6-25 statements) go the same way.",
    "technique": "TLA+ reference interpreter + TLC exhaustive program/fault enumeration + TLC trace validation of the real runs",
    "design_ref": "DESIGN.md §6 C03",
    "note": "leaves/conditions are harness-defined instrumented components; StateReq::verif_state hook lets them log in require",
}

INVS = ("TypeOK InitOnceOutsideScopes RequireBeforeExecute FirstErrorStopsAll ScopesClosedAtEnd "
        "CondReinitAndTestBeforePass BodyOnlyAfterTrueTest RootAccounting ScopeEntryFresh SeedStaysInside")
JAVA = "-Xss512m"


def cfg_mc(n, l, f, export):
    return ("SPECIFICATION ESpec\nCONSTANTS\n  LeafVariants = {\"plain\", \"ins0\", \"ent0\", \"req0\", \"seed\"}\n  MaxStmts = %d\n  MaxScript = %d\n  MaxFault = %d\nINVARIANT %s\n"
            "CHECK_DEADLOCK FALSE\n" % (n, l, f, "PrintCase" if export else INVS))


CFG_TRACE = ("SPECIFICATION TraceSpec\nCONSTANTS\n  LeafVariants = {}\n  MaxStmts = 0\n  MaxScript = 0\n  MaxFault = 0\n"
             "POSTCONDITION TraceDone\nCHECK_DEADLOCK FALSE\n")


def state_of(r):
    return r.get("e", {}).get("sc") if r["ev"] == "e" else None


DESCRIBE = {
    "state": lambda r: r["e"]["sc"] if r["ev"] == "e" else (r["end"] if r["ev"] == "end" else "case"),
    "act": lambda r: ({"ph": r["e"]["ph"], "kind": r["e"]["kind"], "p": r["e"]["p"], "b": r["e"]["b"],
                       "fail": r["e"]["fail"]} if r["ev"] == "e" else {"ev": r["ev"]}),
    "is_reset": lambda r: r["ev"] == "case",
    # non-trivial: the call changed what the next call sees, failed, or is the end of a failed run
    "nontrivial": lambda r, before, after: (r["ev"] == "e" and (r["e"]["fail"] == 1 or before != after))
    or (r["ev"] == "end" and r["end"]["result"] != "ok"),
}

RULE = ("cases = (program, condition script, fault) triples: ALL programs up to the statement bound x ALL scripts x "
        "ALL single faults exported from TLC, plus seeded random trees; each is built and run on the real code; "
        "evaluations = recorded lifecycle events; non-trivial = the scope stack seen by the call differs from what the "
        "previous call saw, or the call failed, or the run ended in an error; distinct = distinct (scope stack before, "
        "event) pairs")


def export_cases(ctx, mc_out, name, limit=None, stride=1):
    pre = '<<"CASE", '
    path = os.path.join(ctx.work, name + ".cases.ndjson")
    n = k = 0
    with open(mc_out) as f, open(path, "w") as g:
        for line in f:
            if line.startswith(pre):
                k += 1
                # one case in `stride`, chosen by a fixed pseudo-random function of the case number (a regular stride can
                # resonate with the enumeration order: TLC varies one dimension of the case fastest)
                if stride > 1 and ((k * 2654435761) % 4294967296) * stride >= 4294967296:
                    continue
                case = json.loads(json.loads(line.rstrip("\n")[len(pre):-2]))
                case["run"] = n
                # every third case starts from a caller state that already holds a pass counter with a stale value
                if n % 3 == 2:
                    case["rootit"] = 3
                g.write(json.dumps(case) + "\n")
                n += 1
                if limit and n >= limit:
                    break
    if n == 0:
        raise vlib.ToolError("no CASE lines in %s" % mc_out)
    vlib.log("[case] %s: %d of %d enumerated cases exported" % (name, n, k))
    return path, n


def header(rp):
    return rp


def run(ctx):
    q = ctx.quick
    # (A) all programs x scripts x faults: lifecycle properties of the reference interpreter
    a = (2, 2, 3) if q else (3, 2, 4)
    ctx.tlc_mc("MC_Exec", cfg_mc(*a, False), "mc", workers=4 if q else 8, timeout=3000, java_opts=JAVA)
    # (B) every enumerated case replayed on the real code (thorough: N <= 3 strided + N <= 2 complete)
    ex = ctx.tlc_mc("MC_Exec", cfg_mc(2, 2, 3, True), "export", workers=1, timeout=3000, java_opts=JAVA)
    cases, n = export_cases(ctx, ex["out"], "enum")
    tr = os.path.join(ctx.work, "enum.trace.ndjson")
    ctx.harness("exec", "replay", **{"in": cases, "out": tr})
    ctx.validate("Trace_Exec", CFG_TRACE, tr, "enum", DESCRIBE, {"driver": "exec"}, timeout=3000)
    if not q:
        ex = ctx.tlc_mc("MC_Exec", cfg_mc(3, 2, 4, True), "export3", workers=1, timeout=3000, java_opts=JAVA)
        cases, n = export_cases(ctx, ex["out"], "enum3", stride=3)
        tr = os.path.join(ctx.work, "enum3.trace.ndjson")
        ctx.harness("exec", "replay", **{"in": cases, "out": tr})
        ctx.validate("Trace_Exec", CFG_TRACE, tr, "enum3", DESCRIBE, {"driver": "exec"}, timeout=3000)
    # (C) seeded random trees, deeper nesting, longer scripts, random fault
    tr = os.path.join(ctx.work, "random.trace.ndjson")
    ctx.harness("exec", "random", out=tr, seed=ctx.seed, n=300 if q else 20000, stmts=25)
    ctx.validate("Trace_Exec", CFG_TRACE, tr, "random", DESCRIBE, {"driver": "exec"}, timeout=3000)
    ctx.assumptions += ["condition outcomes are scripted (a global script consumed in evaluation order); faults are single "
                        "injected Err returns of the n-th call of a phase, or a missing requirement"]
    return ctx.finish(RULE)


def replay(ctx, rp):
    h = rp["header"]
    cases = os.path.join(ctx.work, "replay.cases.ndjson")
    with open(cases, "w") as f:
        f.write(json.dumps({"run": 0, "prog": h["prog"], "script": h["script"], "fault": h["fault"]}) + "\n")
    tr = os.path.join(ctx.work, "replay.trace.ndjson")
    ctx.harness("exec", "replay", **{"in": cases, "out": tr})
    ctx.validate("Trace_Exec", CFG_TRACE, tr, "replay", DESCRIBE, rp["meta"])
    return ctx.finish(RULE)
