"""C10 — conditions decide what their names say; loops make exactly n passes (spec/Conditions.tla)."""
import collections, json, os
import tour, vlib

MANIFEST = {
    "modules": ["Conditions"],
    "text": "TLC checks the independently stated clauses of C10 (less-than-n exact + progress = value/n -- on unsigned "
            "counters and on SIGNED lenses (an f64 state in halves, an i32 state) with negative, zero (+0.0 and -0.0) and "
            "fractional bounds and values: true exactly while value < n for every sign combination, progress value/n "
            "with its sign, value/+-0 as the arithmetic defines it; on the float lenses the value seen and the bound may be NOT A "
            "NUMBER: unordered operands are never 'below' -- LessThanUnordered --, progress is then not a number, a loop "
            "tested on such a value stops at once -- SLoopUnordered --, change-of sees NaN differ from everything; a loop driven by such a condition, whose body raises "
            "the value by d per pass, makes exactly the passes the statement implies, tests once more and counts them "
            "-- SLoopExact --, every-n on "
            "multiples, change-of against the value last reported incl. a history variable for all value histories "
            "up to the bound, optimum-reached, random-chance counting, and/or/not = every operand exactly once + "
            "Boolean combination, loop passes = n and tests = n + 1, loops and scopes nested in one another: in "
            "every program in which each scope hosts at most one loop every loop counts 0..n on its own counter "
            "with progress k/n whatever runs inside or around it -- NestExact, NestOwnCounter -- and no scope "
            "changes what its surroundings see -- ScopeIsolates) exhaustively on bounded models of "
            "Conditions.tla; every transition of those models (all (n, value) pairs incl. all sign combinations over "
            "-1.5..1.5 and both zeros, loops towards every signed bound, all prepared change-of states incl. "
            "differences across zero, "
            "all formulas up to the depth bound over scripted operands, loops with a real LessThanN::iterations(n) "
            "and a counting body, all loop/scope/tick/set programs up to the node bound run as init-require-execute "
            "with probes at every tick, condition test and scope border) is replayed on the real mahf conditions "
            "and Loop/Scope/Block components, and "
            "seeded random histories (n up to 10^4, random formulas of depth <= 5, random nested programs up to 4 "
            "deep and an (n, m) grid of scoped loop nests, a signed grid {+-10, +-3.5, +-3, +-2.5, +-1, +-0.5, +0, -0}^2 "
            "of (bound, value) pairs and loops from below / at / above every bound on both signed lenses, seeded "
            "signed values next to n, -n and 0 up to +-10^4, float-neighbour cases of "
            "optimum-reached, 4000-evaluation frequency series of random-chance judged at 6 sigma by the spec) are "
            "recorded; TLC validates every recorded call (arguments, reply, observed values, progress fraction) as "
            "a step of the spec.",
    "technique": "TLA+ spec + TLC model checking + TLC trace validation of replayed transition tours and random histories",
    "design_ref": "DESIGN.md §6 C10",
    "note": "generic conditions exercised at lenses ValueOf<Iterations>, ValueOf<Evaluations> (u32), ValueOf<FVal> (f64), "
            "ValueOf<SVal> (signed f64), ValueOf<IVal> (i32), "
            "BestObjectiveValueLens (SingleObjective); change-of's Previous<T> is private to mahf and is observed only "
            "through later replies; random-chance is a 6-sigma frequency test",
}

PROPS = ("UnreadableIsError LessThanExact LessThanUnordered SLoopUnordered EveryExact ChangeExact OptimumExact ChanceCounted LogicExact "
         "LoopExact LoopFromAnywhere SLoopExact NestExact NestOwnCounter ScopeIsolates")

ALL_LENS = ["iter", "eval", "fval", "obj", "sval", "ival"]
SOFF = 100000      # code of the number 0 on the signed lenses (Conditions.tla, SOff)
NANV = 900000      # code of "not a number" on the float lenses (Conditions.tla, NaNV)


def tla_set(xs):
    return "{" + ", ".join(('"%s"' % x) if isinstance(x, str) else str(x) for x in xs) + "}"


def constants(lens, val=(), ns=(), ds=(), pts=(0, 5, 10), ops=(), trials=0, depth=0, arity=0, leaves=0,
              eps=(), opts=(), psize=0, pdepth=0):
    return ("CONSTANTS\n  Lens = %s\n  Val = %s\n  Ns = %s\n  Ds = %s\n  Pts = %s\n  Ops = %s\n  MaxTrials = %d\n"
            "  MaxDepth = %d\n  MaxArity = %d\n  MaxLeaves = %d\n  Eps = %s\n  Opts = %s\n"
            "  MaxPSize = %d\n  MaxPDepth = %d\n" % (
                tla_set(lens), tla_set(val), tla_set(ns), tla_set(ds), tla_set(pts), tla_set(ops), trials,
                depth, arity, leaves, tla_set(eps), tla_set(opts), psize, pdepth))


def cfg_mc(**kw):
    """Design check and transition export in one single-worker run."""
    return ("SPECIFICATION Spec\n" + constants(**kw) + "VIEW McView\nINVARIANT TypeOK\nPROPERTY %s\n"
            "ACTION_CONSTRAINT PrintEdge\nCHECK_DEADLOCK FALSE\n" % PROPS)


def cfg_hist(maxhist, **kw):
    return ("SPECIFICATION HSpec\n" + constants(**kw) + "  MaxHist = %d\nVIEW HView\nCONSTRAINT HBound\n"
            "INVARIANT TypeOK PrevIsLastReported RepliesFollowHistory\nPROPERTY ChangeExact UnreadableIsError\n"
            "CHECK_DEADLOCK FALSE\n" % maxhist)


def cfg_trace():
    return ("SPECIFICATION TraceSpec\n" + constants(ALL_LENS, pts=range(11)) +
            "POSTCONDITION TraceDone\nCHECK_DEADLOCK FALSE\n")


EVALS = ("lt", "every", "co", "optimum", "optimum_at", "rc", "rc_end", "logic", "loop", "sloop", "nest")

DESCRIBE = {
    "state": lambda r: [r["obs"], r["progress"]],
    "act": lambda r: r["act"],
    "is_reset": lambda r: r["act"]["op"] == "reset",
    # non-trivial: a condition was evaluated / a loop was run (its reply is judged), or the state changed
    "nontrivial": lambda r, before, after: r["act"]["op"] in EVALS or before != after,
}

RULE = ("cases = calls (set observed value, Condition::init, Condition::evaluate of LessThanN / EveryN / ChangeOf / "
        "OptimumReached / RandomChance / And-Or-Not formulas over scripted operands, execution of a Loop with a real "
        "LessThanN::iterations(n) and a counting body, execution of a Loop with a real LessThanN on a signed lens and a "
        "body raising the value, run of a program of nested Loops / Scopes with probes) "
        "executed on the real mahf code from a given abstract state; "
        "generated by (B) transition tours over every transition of the bounded TLC models and (C) seeded random "
        "histories, grids and frequency series; non-trivial = a condition was evaluated or a loop was run, or the "
        "observable state changed; distinct = distinct (observable state before, call) pairs")


def models(q):
    """(name, constants) of the bounded models whose transitions are checked (A) and replayed (B)."""
    return [
        # all (n, value) pairs of less-than-n / every-n; loops for every n from every counter value
        ("lt", dict(lens=["iter"], val=range(0, 7 if q else 10), ns=range(0, 6 if q else 8),
                    ops=["set", "lt", "every", "loop"])),
        # all prepared change-of states (value seen x value last reported) for both checkers
        ("co", dict(lens=["iter"], val=range(0, 5 if q else 8), ds=range(0, 4 if q else 6), ops=["set", "co"])),
        # two conditions of the same target type side by side (independence of their states)
        ("two", dict(lens=["iter", "eval"], val=[0, 1] if q else [0, 1, 2], ns=[2], ds=[1] if q else [1, 2],
                     ops=["set", "lt", "every", "co"])),
        # f64 lens
        # ("nan": the value seen / the bound may be not-a-number on the float lenses: unordered operands)
        ("fval", dict(lens=["fval"], val=[0, 1, 2, 3], ns=[0, 1, 2], ops=["set", "lt", "co", "nan"])),
        # signed f64 lens (values and bounds in halves: -1.5 .. 1.5, both zeros): all (n, value) pairs of
        # less-than-n for every sign combination; loops raising the value by 1 or 2 halves towards every bound
        ("sval", dict(lens=["sval"], val=range(SOFF - 3, SOFF + (4 if q else 5)), ns=range(SOFF - 3, SOFF + (3 if q else 4)),
                      ds=[1, 2], ops=["set", "lt", "sloop", "nan"])),
        # signed integer lens (i32), next to the loop's own counter
        ("ival", dict(lens=["ival", "iter"], val=[0] + list(range(SOFF - 2, SOFF + 2)),
                      ns=range(SOFF - 1, SOFF + 2), ds=[1, 2], ops=["set", "lt", "sloop"])),
        # change-of on the signed lenses: differences across zero with both checkers (i32), +0.0 / -0.0 are one value (f64)
        ("sco", dict(lens=["ival"], val=range(SOFF - 2, SOFF + 3), ds=[0, 1, 2, 3], ops=["set", "co"])),
        ("scof", dict(lens=["sval"], val=range(SOFF - 1, SOFF + 2), ops=["set", "co", "nan"])),
        # best-objective lens: change-of with both checkers, optimum-reached on a lattice straddling opt + eps
        ("obj", dict(lens=["obj"], val=[0, 1, 2, 3], ds=[1, 2], eps=[0, 1], opts=[0, 1],
                     ops=["set", "co", "optimum"])),
        # all formulas up to the depth bound over scripted operands (true / false / failing)
        ("logic", dict(lens=["iter"], ops=["logic"], depth=2, arity=3, leaves=3)),
        ("chance", dict(lens=["iter"], ops=["rc"], pts=[0, 5, 10], trials=2 if q else 3)),
        # all programs of loops (bounds 1, 2) / scopes / ticks / sets up to the node bound, nested up to 3 deep,
        # run on a fresh state
        ("nest", dict(lens=["iter"], val=[3], ns=[1, 2], ops=["nest"], psize=4 if q else 5, pdepth=3)),
    ] + ([] if q else [
        ("logic3", dict(lens=["iter"], ops=["logic"], depth=3, arity=2, leaves=2)),
    ])


def fast_tours(edges, max_len=400):
    """Transition tour (same greedy walk as tools/tour.py, on integer state ids with a condensed
    successor relation, so that graphs with many self-loops stay cheap).  A wrong tour can only lose
    coverage; whatever the implementation does is judged by TLC afterwards."""
    ids = {}

    def sid(x):
        k = json.dumps(x, sort_keys=True)
        return ids.setdefault(k, len(ids))
    E = [(sid(e["from"]), sid(e["to"])) for e in edges]
    n = len(ids)
    todo = [[] for _ in range(n)]          # unvisited out-edges per state
    succ = [dict() for _ in range(n)]      # state -> {successor: some edge index}
    for i, (a, b) in enumerate(E):
        todo[a].append(i)
        if a != b:
            succ[a].setdefault(b, i)
    for t in todo:
        t.reverse()
    init = E[0][0]
    remaining = len(E)
    scenarios, scen, cur = [], [], init

    def nearest(src):
        seen = {src: None}
        queue = collections.deque([src])
        while queue:
            s = queue.popleft()
            if todo[s]:
                path = []
                while seen[s] is not None:
                    path.append(seen[s])
                    s = E[seen[s]][0]
                return path[::-1]
            for t, ei in succ[s].items():
                if t not in seen:
                    seen[t] = ei
                    queue.append(t)
        return None

    while remaining > 0:
        if todo[cur] and len(scen) < max_len:
            ei = todo[cur].pop()
            remaining -= 1
            scen.append(edges[ei]["act"])
            cur = E[ei][1]
            continue
        path = nearest(cur) if len(scen) < max_len else None
        if path is None or len(scen) + len(path) >= max_len:
            if scen:
                scenarios.append(scen)
            scen, cur = [], init
            path = nearest(cur)
            if path is None:
                break
        for ei in path:
            scen.append(edges[ei]["act"])
            cur = E[ei][1]
    if scen:
        scenarios.append(scen)
    return scenarios


def tlc_mc(ctx, *args, **kw):
    """ctx.tlc_mc, retried once when TLC died without reporting anything (JVM could not start on a
    loaded machine); a reported error or violated property is never retried."""
    try:
        return ctx.tlc_mc(*args, **kw)
    except vlib.ToolError as e:
        if "failed: []" not in str(e):
            raise
        vlib.log("[tlc ] no result and no error reported; retrying once")
        return ctx.tlc_mc(*args, **kw)


def run(ctx):
    q = ctx.quick
    ctx.harness("conditions", "selftest")     # exactness of the float -> fraction projection (tool error if not)
    # (A) design check + export of every transition, per bounded model
    scen = os.path.join(ctx.work, "tour.scen.ndjson")
    all_edges, k = [], 0
    with open(scen, "w") as f:
        for name, kw in models(q):
            ex = tlc_mc(ctx, "MC_Conditions", cfg_mc(**kw), "mc-" + name, workers=1, timeout=1500)
            edges = tour.parse_edges(ex["out"])
            if not edges:
                raise vlib.ToolError("no EDGE lines in %s" % ex["out"])
            scs = fast_tours(edges)
            vlib.log("[tour] %s: %d transitions -> %d scenarios, %d calls" % (
                name, len(edges), len(scs), sum(map(len, scs))))
            all_edges += edges
            for acts in scs:
                f.write(json.dumps({"run": k, "acts": acts}) + "\n")
                k += 1
    # (A) change-of over all value histories up to the bound, both checkers
    tlc_mc(ctx, "Hist_Conditions",
               cfg_hist(4 if q else 5, lens=["iter"], val=[0, 1, 2], ds=[1, 2], ops=["set", "co"]),
               "mc-hist", workers=4, timeout=1500)
    vlib.vacuity(all_edges, "act.op", ["set", "lt_init", "lt", "every", "co_init", "co", "optimum", "optimum_at",
                                       "rc", "rc_end", "logic", "loop", "sloop", "nest"], "call")
    signed = [e for e in all_edges if e["act"]["l"] in ("sval", "ival")]
    for f in ("-", "nz"):      # both zeros as a bound, both replies for each
        vlib.vacuity([e for e in signed if e["act"]["op"] == "lt" and e["act"]["n"] == SOFF and e["act"]["f"] == f],
                     "res.b", [0, 1], "reply of less-than-n with the zero bound %r" % f)
    vlib.vacuity([e for e in signed if e["act"]["op"] == "lt" and e["act"]["n"] < SOFF], "res.b", [0, 1],
                 "reply of less-than-n with a negative bound")
    vlib.vacuity([e for e in signed if e["act"]["op"] == "sloop" and e["res"]["k"] == "ok"], "res.p", [0, 1, 2, 3],
                 "passes of a loop on a signed lens")
    nan_v = [e for e in all_edges if e["act"]["op"] in ("lt", "sloop", "co") and e["from"]["obs"].get(e["act"]["l"]) == NANV]
    vlib.vacuity(nan_v, "act.op", ["lt", "sloop", "co"], "call on a value that is not a number")
    vlib.vacuity([e for e in all_edges if e["act"]["op"] == "lt" and e["act"]["n"] == NANV], "act.l", ["fval", "sval"],
                 "less-than-n with a bound that is not a number")
    vlib.vacuity(all_edges, "res.k", ["ok", "err", "bool", "ctor_err"], "reply kind")
    for op in ("lt", "every", "co", "optimum", "optimum_at", "rc", "logic"):
        vlib.vacuity([e for e in all_edges if e["act"]["op"] == op], "res.b", [0, 1], "reply of " + op)
    # (B) spec -> impl: every transition of the bounded models replayed on the real conditions
    tr = os.path.join(ctx.work, "tour.trace.ndjson")
    ctx.harness("conditions", "replay", **{"in": scen, "out": tr, "seed": ctx.seed})
    ctx.validate("Trace_Conditions", cfg_trace(), tr, "tour", DESCRIBE, {"driver": "conditions"},
                 max_rejections=2)
    # (C) impl -> spec: random histories (small dense and large parameters), frequency series, grids
    tr2 = os.path.join(ctx.work, "random.trace.ndjson")
    ctx.harness("conditions", "random", out=tr2, seed=ctx.seed, n=12 if q else 80, len=500 if q else 2000,
                freq=1 if q else 12, trials=4000)
    ctx.validate("Trace_Conditions", cfg_trace(), tr2, "random", DESCRIBE, {"driver": "conditions"},
                 max_rejections=2)
    ctx.assumptions += [
        "observed values are naturals mapped to u32 (iter, eval), k/2 as f64 (fval), k/4 as objective (obj, eps, optimum); "
        "signed lenses: code 100000 + k is k/2 as f64 (sval) and k as i32 (ival), f = nz makes a zero the float -0.0",
        "progress is compared as the exact fraction value/n recovered from the f64 (P-pred: bit-identical quotient)",
        "operands of And/Or are taken to be evaluated left to right (order matters only when an operand fails)",
        "random-chance: frequency within 6 sigma over 4000 seeded evaluations per probability (p = 0, 1 exact)",
        "change-of's private Previous<T> is not observable; divergence shows in later replies only",
    ]
    return ctx.finish(RULE)


def replay(ctx, rp):
    scen = os.path.join(ctx.work, "replay.scen.ndjson")
    sc = {"run": 0, "acts": rp["acts"]}
    hdr = rp.get("header") or {}
    if "seed" in hdr:
        sc["seed"] = hdr["seed"]
    with open(scen, "w") as f:
        f.write(json.dumps(sc) + "\n")
    tr = os.path.join(ctx.work, "replay.trace.ndjson")
    ctx.harness("conditions", "replay", **{"in": scen, "out": tr, "seed": rp.get("seed", 0)})
    ctx.validate("Trace_Conditions", cfg_trace(), tr, "replay", DESCRIBE, rp["meta"])
    return ctx.finish(RULE)
