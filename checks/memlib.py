"""Unit-level part shared by C05 / C06 / C07: spec/Memory.tla (individuals, evaluation step, best, archive)."""
import json, os
import vlib

PROPS = "MutableAccessClears CopyKeepsPair EvaluateExact CountOnlyByEvaluate BestRules NoDuplicateOnReinsert"


def cfg_mc(sols, f, k, maxpop, export):
    s = ("SPECIFICATION MSpec\nCONSTANTS\n  Sols = {%s}\n  F <- %s\n  K = %d\n  MaxPop = %d\nVIEW McView\n"
         % (", ".join(map(str, range(1, sols + 1))), f, k, maxpop))
    s += "ACTION_CONSTRAINT PrintEdge\n" if export else "INVARIANT MTypeOK Fresh ArchiveHoldsKBest\nPROPERTY %s\n" % PROPS
    return s + "CHECK_DEADLOCK FALSE\n"


def cfg_trace(sols, f, k):
    # F is needed by the trace spec too; the MC module defines the tables
    return ("SPECIFICATION TraceSpec\nCONSTANTS\n  Sols = {%s}\n  F <- %s\n  K = %d\n  MaxPop = 99\n"
            "INVARIANT Fresh ArchiveHoldsKBest\nPOSTCONDITION TraceDone\nCHECK_DEADLOCK FALSE\n"
            % (", ".join(map(str, range(1, sols + 1))), f, k))


DESCRIBE = {
    "state": lambda r: [r["pop"], r["best"], r["arch"]],
    "act": lambda r: r["act"],
    "is_reset": lambda r: r["act"]["op"] == "reset",
    "nontrivial": lambda r, before, after: before != after or r["res"]["k"] != "ok",
}


def unit(ctx, focus):
    """(A) MC of Memory.tla, (B) transition tour replayed on the real code, (C) random histories."""
    q = ctx.quick
    ctx.tlc_mc("MC_Memory", cfg_mc(3, "FQ", 2, 2, False) if q else cfg_mc(4, "FT", 2, 3, False), "mc-memory",
               workers=4 if q else 10, timeout=3000)
    ex = ctx.tlc_mc("MC_Memory", cfg_mc(2, "FQ", 1, 2, True) if q else cfg_mc(3, "FQ", 2, 2, True), "export-memory",
                    workers=1, timeout=3000)
    scen, edges = vlib.export_scenarios(ctx, ex["out"], "tour-memory")
    vlib.vacuity(edges, "act.op", focus, "operation")
    tr = os.path.join(ctx.work, "tour-memory.trace.ndjson")
    kk = 1 if q else 2
    ctx.harness("memory", "replay", **{"in": scen, "out": tr, "k": kk, "table": "FQ"})
    ctx.validate("Trace_Memory_T", cfg_trace(3, "FQ", kk), tr, "tour-memory", DESCRIBE,
                 {"driver": "memory", "k": kk, "table": "FQ"}, timeout=3000)
    for k in ([1, 3] if q else [0, 1, 2, 3, 4]):
        tr = os.path.join(ctx.work, "random-memory-k%d.trace.ndjson" % k)
        ctx.harness("memory", "random", out=tr, seed=ctx.seed + k, k=k, table="FZ", n=10 if q else 100, len=400 if q else 2000)
        ctx.validate("Trace_Memory_T", cfg_trace(8, "FZ", k), tr, "random-memory-k%d" % k, DESCRIBE,
                     {"driver": "memory", "k": k, "table": "FZ"})


def replay_unit(ctx, rp):
    scen = os.path.join(ctx.work, "replay.scen.ndjson")
    with open(scen, "w") as f:
        f.write(json.dumps({"run": 0, "acts": rp["acts"]}) + "\n")
    tr = os.path.join(ctx.work, "replay.trace.ndjson")
    k, table = rp["meta"]["k"], rp["meta"]["table"]
    ctx.harness("memory", "replay", **{"in": scen, "out": tr, "k": k, "table": table})
    ctx.validate("Trace_Memory_T", cfg_trace({"FQ": 3, "FZ": 8}.get(table, 6), {"FQ": "FQ", "FZ": "FZ"}.get(table, "FR"), k), tr, "replay",
                 DESCRIBE, rp["meta"])
