"""Unit-level part shared by C05 / C06 / C07: spec/Memory.tla (individuals, evaluation step, best, archive)."""
import json, os
import vlib

PROPS = "MutableAccessClears CopyKeepsPair EvaluateExact RegisteredApplied CountOnlyByEvaluate BestRules NoDuplicateOnReinsert"


def cfg_mc(sols, f, k, maxpop, export, regkinds=(), both=False, user_ops=True):
    """export: print every transition; both: check the properties in the same (single-worker) run."""
    s = ("SPECIFICATION MSpec\nCONSTANTS\n  Sols = {%s}\n  F <- %s\n  K = %d\n  MaxPop = %d\n  RegKinds = {%s}\nVIEW McView\n"
         % (", ".join(map(str, range(1, sols + 1))), f, k, maxpop, ", ".join(map(str, regkinds))))
    if export:
        s += "ACTION_CONSTRAINT %s\n" % ("PrintEdge" if user_ops else "PrintEdgeNoUser")
    if both or not export:
        s += "INVARIANT MTypeOK Fresh ArchiveHoldsKBest\nPROPERTY %s\n" % PROPS
    return s + "CHECK_DEADLOCK FALSE\n"


def cfg_trace(sols, f, k):
    # F is needed by the trace spec too; the MC module defines the tables
    return ("SPECIFICATION TraceSpec\nCONSTANTS\n  Sols = {%s}\n  F <- %s\n  K = %d\n  MaxPop = 99\n  RegKinds = {0, 1, 4}\n"
            "INVARIANT Fresh ArchiveHoldsKBest\nPOSTCONDITION TraceDone\nCHECK_DEADLOCK FALSE\n"
            % (", ".join(map(str, range(1, sols + 1))), f, k))


DESCRIBE = {
    "state": lambda r: [r["pop"], r["best"], r["arch"]],
    "act": lambda r: r["act"],
    "is_reset": lambda r: r["act"]["op"] == "reset",
    "nontrivial": lambda r, before, after: before != after or r["res"]["k"] != "ok",
}


def unit(ctx, focus, registrations=False):
    """(A) MC of Memory.tla, (B) transition tour replayed on the real code, (C) random histories."""
    q = ctx.quick
    ctx.tlc_mc("MC_Memory", cfg_mc(3, "FQ", 2, 2, False) if q else cfg_mc(4, "FT", 2, 3, False), "mc-memory",
               workers=4 if q else 10, timeout=3000)
    # (thorough: the large export leaves the user-operator calls out -- they double it -- and the quick-sized export,
    #  which has them, is toured as well)
    ex = ctx.tlc_mc("MC_Memory", cfg_mc(2, "FQ", 1, 2, True) if q else cfg_mc(3, "FQ", 2, 2, True, user_ops=False), "export-memory",
                    workers=1, timeout=3000)
    scen, edges = vlib.export_scenarios(ctx, ex["out"], "tour-memory")
    if not q:
        exs = ctx.tlc_mc("MC_Memory", cfg_mc(2, "FQ", 1, 2, True), "export-memory-small", workers=1, timeout=3000)
        scens, edges_s = vlib.export_scenarios(ctx, exs["out"], "tour-memory-small")
        trs = os.path.join(ctx.work, "tour-memory-small.trace.ndjson")
        ctx.harness("memory", "replay", **{"in": scens, "out": trs, "k": 1, "table": "FQ"})
        ctx.validate("Trace_Memory_T", cfg_trace(3, "FQ", 1), trs, "tour-memory-small", DESCRIBE,
                     {"driver": "memory", "k": 1, "table": "FQ"}, timeout=3000)
        edges = edges + edges_s
    tr = os.path.join(ctx.work, "tour-memory.trace.ndjson")
    kk = 1 if q else 2
    ctx.harness("memory", "replay", **{"in": scen, "out": tr, "k": kk, "table": "FQ"})
    ctx.validate("Trace_Memory_T", cfg_trace(3, "FQ", kk), tr, "tour-memory", DESCRIBE,
                 {"driver": "memory", "k": kk, "table": "FQ"}, timeout=3000)
    # the evaluator registrations (which evaluator an evaluation step finds: registered twice, under two identifiers,
    # by a scope of its own, around it, nowhere) on a small population: model-checked and toured in one run
    if not registrations:
        vlib.vacuity(edges, "act.op", focus, "operation")
        return _random(ctx, q)
    ex2 = ctx.tlc_mc("MC_Memory", cfg_mc(1, "FQ", 1, 1, True, regkinds=(0, 4), both=True) if q else
                     cfg_mc(1, "FQ", 1, 2, True, regkinds=(0, 1, 4), both=True), "mc-export-registrations", workers=1, timeout=3000)
    scen2, edges2 = vlib.export_scenarios(ctx, ex2["out"], "tour-registrations")
    vlib.vacuity(edges + edges2, "act.op", focus, "operation")
    vlib.vacuity([e for e in edges2 if e["act"]["op"] == "evaluate_scoped"], "res.k", ["ok", "err"], "outcome of a scoped evaluation")
    tr2 = os.path.join(ctx.work, "tour-registrations.trace.ndjson")
    ctx.harness("memory", "replay", **{"in": scen2, "out": tr2, "k": 1, "table": "FQ"})
    ctx.validate("Trace_Memory_T", cfg_trace(3, "FQ", 1), tr2, "tour-registrations", DESCRIBE,
                 {"driver": "memory", "k": 1, "table": "FQ"}, timeout=3000)
    _random(ctx, q)


def _random(ctx, q):
    for k in ([1, 3] if q else [0, 1, 2, 3, 4]):
        tr = os.path.join(ctx.work, "random-memory-k%d.trace.ndjson" % k)
        ctx.harness("memory", "random", out=tr, seed=ctx.seed + k, k=k, table="FZ", n=10 if q else 100, len=400 if q else 2000)
        ctx.validate("Trace_Memory_T", cfg_trace(8, "FZ", k), tr, "random-memory-k%d" % k, DESCRIBE,
                     {"driver": "memory", "k": k, "table": "FZ"})


def replay_unit(ctx, rp):
    scen = os.path.join(ctx.work, "replay.scen.ndjson")
    with open(scen, "w") as f:
        f.write(json.dumps({"run": 0, "acts": rp["acts"]}) + "\n")
    tr = os.path.join(ctx.work, "replay.trace.ndjson")
    k, table = rp["meta"]["k"], rp["meta"]["table"]
    ctx.harness("memory", "replay", **{"in": scen, "out": tr, "k": k, "table": table})
    ctx.validate("Trace_Memory_T", cfg_trace({"FQ": 3, "FZ": 8}.get(table, 6), {"FQ": "FQ", "FZ": "FZ"}.get(table, "FR"), k), tr, "replay",
                 DESCRIBE, rp["meta"])
