"""C18 — particle swarm keeps velocities clamped and best memories consistent (Swarm.tla, Run.tla clause C18)."""
import vlib
from checks import runlib

MANIFEST = {
    "modules": ["Swarm", "Run"],
    "text": "Swarm.tla models the swarm memories over ranks (current evaluation, personal bests, global best, ghost history "
            "minimum per particle) through the PSO loop Move; Evaluate; PersonalBestUpdate; GlobalBestUpdate; TLC checks "
            "PBestIsHistoryMin, GBestIsMinPBest and both monotonicity properties for all rank histories within the bound. "
            "Binding: real_pso runs over swarm sizes, dimensions, weights, c in {0, 0.5, 2}, v_max from 1e-3 to 10 domain "
            "widths and seeds under the step observer; after EVERY component TLC (Run.tla, clause C18) requires: all "
            "velocity components within [-v_max, v_max]; after the velocity update each particle moved by exactly its new "
            "velocity (bitwise) and, with c1 = c2 = 0, v' = clamp(stored weight * v); after the Linear mapping the weight "
            "is exactly (end - start) * progress + start; personal bests follow the strict rule and equal the per-particle "
            "history minimum kept by the spec; global best = min of personal bests; the three collections have one entry per "
            "particle; memories change only in their update components; at the END OF EVERY PASS of the swarm's loop, whatever "
            "steps the pass consists of, personal bests = history minima and global best = min of personal bests (PsoPassEnd); "
            "for any c1, c2 the new velocity lies in the interval that the stored weight times the old velocity and the two "
            "attraction terms (each between 0 and c * (best - x)) leave, clamped (vrange). The grid includes inertia weights "
            "above 1 (decreasing, increasing and constant schedules, with and without acceleration terms), the generic pso "
            "template without a weight schedule (real_pso|const) and swarms on domains of width 2e-9 / 2e9 (improvements far "
            "below f64::EPSILON in absolute terms; memories are judged by rank).",
    "technique": "TLA+ spec + TLC model checking + TLC trace validation of step-observer traces (float facts as harness predicates)",
    "design_ref": "DESIGN.md §6 C18, §2.4",
    "note": "P-pred predicates (vmax_ok, moved_exact, vexact, vrange, wexact) are evaluated in f64 by harness/src/drivers/templates_extra.rs",
}

RULE = ("cases = every component step of real_pso runs over the parameter grid x seeds (plus all rank histories of the "
        "bounded Swarm model); non-trivial = the step changed the projected state; distinct = distinct (state before, component) pairs")


def run(ctx):
    q = ctx.quick
    ctx.tlc_mc("Swarm", "SPECIFICATION SSpec\nCONSTANTS\n  NP = %d\n  Ranks = {%s}\nINVARIANT PBestIsHistoryMin GBestIsMinPBest\n"
               "PROPERTY PBestMonotone GBestMonotone\nCHECK_DEADLOCK FALSE\n" % ((3, "1, 2, 3") if q else (4, "1, 2, 3, 4")),
               "mc-swarm", workers=4 if q else 10, timeout=3000)
    runlib.run_templates(ctx, ["C18"], seeds=[ctx.seed, ctx.seed + 1, ctx.seed + 2] if q else list(range(ctx.seed, ctx.seed + 14)),
                         iters=[0, 1, 6, 25] if q else [0, 1, 6, 25, 80], templates=["real_pso", "real_pso|evals", "real_pso|log4"], quick_grid=False)
    # harness-built PSO configurations: a second swarm under identifier A next to a default one, a scoped inner loop with
    # its own LessThanN inside the repair step, a swarm started after another phase filled the best-individual memory
    from checks.templates_grid import pso_variant_specs, pso_specs
    runlib.run_templates(ctx, ["C18"], seeds=None, iters=None, name="variants",
                         extra_specs=pso_variant_specs([ctx.seed, ctx.seed + 1] if q else list(range(ctx.seed, ctx.seed + 12)),
                                                       [2, 7] if q else [2, 7, 30])
                                     + pso_specs(q, [ctx.seed, ctx.seed + 1] if q else list(range(ctx.seed, ctx.seed + 12)),
                                                 [1, 6, 40] if q else [1, 6, 40, 200]))
    return ctx.finish(RULE)


def replay(ctx, rp):
    runlib.replay(ctx, rp, ["C18"])
    return ctx.finish(RULE)
