"""C14 — initialisation and boundary repair keep every coordinate inside the domain (spec/Boundary.tla)."""
import json, os, sys
import vlib

MANIFEST = {
    "modules": ["Boundary", "BoundaryOps", "BoundaryLoop"],
    "text": "TLC checks on a lattice (coordinate = lo + k*w/8, F widths on both sides of the domain) that every "
            "boundary-repair component terminates, returns only coordinates inside the closed domain, leaves inside "
            "coordinates bit-identical and is idempotent, that Saturation/Mirror are exactly clamp/reflect-until-inside "
            "(Boundary.tla, function-level RepairLaws), that the Mirror and resampling LOOPS have no stuck state and a "
            "strictly decreasing variant (BoundaryLoop.tla), and that the initialisation components push exactly n "
            "unevaluated individuals of the problem dimension with coordinates inside / permutations of all positions. "
            "Every transition of the bounded model (every lattice point, every operator, operator after operator) is "
            "replayed through Component::execute on a real State for four dyadic domains where lattice and arithmetic "
            "are exact, each execution under a watchdog (a hang is the reply `timeout`); the transitions of the 2- and "
            "4-dimensional models (initial populations of up to 2 individuals, every repair) are replayed under "
            "HETEROGENEOUS domain lists of every shape, every rotation (later dimension narrower and wider): all "
            "bounds different, one lower bound with different upper bounds (above, below and across zero), one upper "
            "bound with different lower bounds, nested ranges with width ratios 1/64..64. Float neighbours of the "
            "bounds, fractional/whole multiples of the width up to 1e6, non-dyadic domains, random values and seeds, "
            "population sizes 0..50 and dimensions 0..20 are driven randomly, every second run on a seeded domain list "
            "of a given shape (equal lower / equal upper bounds, narrowing, widening, below / across / above zero, "
            "homogeneous, width ratios 1e-3..1e3). A systematic grid executes every initialiser obtained in EVERY way "
            "(each public constructor incl. RandomBitstring::new_uniform, Initialization::initialize, the public "
            "generator function) for the dimensions 0, 1, 2, 31..33, 63..65, 127..129, 192, 256 - bitstrings with the "
            "probabilities 0, 1, exactly 0.5, 0.1, 0.25, 0.9, 1e-300, 1 - 1e-9 - and random_spread plus every repair "
            "(built by `new` and `from_params`) on domain lists of every shape with 2, 3 and 6 dimensions; the check "
            "fails as vacuous unless each (dimension, probability, way) and each (shape fact, way / repair) occurred. "
            "TLC validates every recorded execution: n unevaluated individuals of the problem's dimension, every "
            "coordinate inside the range of ITS dimension.",
    "technique": "TLA+ spec + TLC model checking + TLC trace validation of replayed transition tours and seeded random runs under a watchdog",
    "design_ref": "DESIGN.md §6 C14",
    "note": "coordinates reach the spec as P-class + exact lattice index (dyadic domains only) + bit-identity mask; "
            "'inside up to rounding of the bound arithmetic' = within 8 eps max(|lo|,|hi|), accepted for the wrap only; "
            "beyond 1e6 widths only fixed extreme cases are exercised",
}

PROPS = "Terminates Inside InsideUntouched Idempotent ExactOnLattice InitExact"
DOMAINS = "-1:1,0:4,-4:12,0.5:0.75"
# heterogeneous domain lists by SHAPE (dyadic ranges: lattice and arithmetic exact); a D-dimensional scenario is
# replayed once per rotation, dimension j in range (j + rotation) mod 4, so every list gives "later narrower" and
# "later wider" neighbours
SHAPE_LISTS = {
    "distinct": DOMAINS,                              # all four bounds differ
    "eq_lo": "0:4,0:1,0:0.5,0:2",                     # one lower bound, upper bounds differ
    "eq_hi": "-4:0,-1:0,-0.5:0,-2:0",                 # one upper bound, lower bounds differ
    "eq_lo_neg": "-4:-2,-4:-3,-4:4,-4:-3.5",          # ... below zero / across zero
    "nested": "-8:8,-2:2,-0.25:0.25,-4:4",            # width ratios 1/64 .. 64 around a common centre
}
# coverage the seeded / systematic executions must reach (harness: WORD_DIMS, PROBS, SHAPES, INIT_VIAS)
WORD_DIMS = [0, 1, 63, 64, 65, 127, 128, 129, 192, 256]
PROB_CLASSES = ["0.0", "1.0", "0.5", "0.1", "0.9", "1e-300"]
SHAPES = ["indep", "eq_lo", "eq_hi", "narrowing", "widening", "signs", "homog", "dyadic"]
INIT_VIAS = ["new", "from_params", "initialize", "functional"]


def cfg_mc(d, f, maxn, export, cands="McCands", masks=False):
    s = ("SPECIFICATION Spec\nCONSTANTS\n  D = %d\n  F = %d\n  MaxN = %d\n  Lattice <- McLattice\n"
         "  InitPops <- McInitPops\n  Cands <- %s\n  AllMasks = %s\nVIEW McView\n"
         % (d, f, maxn, cands, "TRUE" if masks else "FALSE"))
    if export:
        s += "ACTION_CONSTRAINT PrintEdge\n"
    else:
        s += "INVARIANT TypeOK\nPROPERTY %s\n" % PROPS
    return s + "CHECK_DEADLOCK FALSE\n"


def cfg_loop(f):
    return ("SPECIFICATION LoopSpec\nCONSTANTS\n  F = %d\nINVARIANT NoStuck Bounded Computes Untouched CanFinish\n"
            "PROPERTY Variant\nCHECK_DEADLOCK FALSE\n" % f)


CFG_TRACE = ("SPECIFICATION TraceSpec\nCONSTANTS\n  D = 1\n  Lattice = {0}\n  InitPops = {}\n  Cands = {}\n  MaxN = 0\n  AllMasks = FALSE\n"
             "POSTCONDITION TraceDone\nCHECK_DEADLOCK FALSE\n")

DESCRIBE = {
    "state": lambda r: [r["kind"], r["stack"]],
    "act": lambda r: r["act"],
    "is_reset": lambda r: r["act"]["op"] == "reset",
    # non-trivial: the execution changed the population stack or did not end normally
    "nontrivial": lambda r, before, after: before != after or r["res"]["k"] != "ok",
}

RULE = ("cases = executions of one initialisation / boundary-repair component (Component::init, require, execute) "
        "on a real State whose top population was prepared by the harness; generated by (B) a transition tour over "
        "every transition of the bounded TLC model, each real-valued scenario replayed for every rotation of four "
        "dyadic domains, and (C) seeded random populations (bounds, their float neighbours, multiples of the width, "
        "random values, non-dyadic domains) and random initialisations (sizes 0..50, dimensions 0..20, three "
        "encodings); non-trivial = the execution changed the projected population stack or did not return ok; "
        "distinct = distinct (projected stack, call) pairs")


def fast_tours(edges, init, max_len):
    """Transition tour for a shallow graph with thousands of branches below the initial state:
    one BFS tree from the initial state gives the path to every state; a scenario is the tree
    path to a state that still has an unvisited out-edge, followed by a greedy walk over
    unvisited edges.  (tools/tour.py does a BFS per scenario, which is quadratic here.)"""
    import collections
    out = collections.defaultdict(list)
    for i, e in enumerate(edges):
        out[e["from"]].append(i)
    parent = {init: None}
    order = [init]
    dq = collections.deque([init])
    while dq:
        s = dq.popleft()
        for ei in out.get(s, []):
            t = edges[ei]["to"]
            if t not in parent:
                parent[t] = ei
                order.append(t)
                dq.append(t)
    unvisited = {s: list(reversed(ix)) for s, ix in out.items()}
    scenarios = []
    for s in order:                     # BFS order: shallow states first
        while unvisited.get(s):
            path = []
            cur = s
            while parent[cur] is not None:
                path.append(parent[cur])
                cur = edges[parent[cur]]["from"]
            scen = [edges[ei]["act"] for ei in reversed(path)]
            cur = s
            while unvisited.get(cur) and len(scen) < max_len:
                ei = unvisited[cur].pop()
                scen.append(edges[ei]["act"])
                cur = edges[ei]["to"]
            scenarios.append(scen)
    return scenarios


def export_scenarios(ctx, mc_out, name, max_len=60):
    """The model has one initial state per problem kind: one tour per kind."""
    sys.path.insert(0, os.path.join(vlib.ROOT, "tools"))
    import tour
    edges = tour.parse_edges(mc_out)
    if not edges:
        raise vlib.ToolError("no EDGE lines in %s" % mc_out)
    path = os.path.join(ctx.work, name + ".scen.ndjson")
    nsc = ncalls = 0
    ids = {}

    def sid(state):      # states as small integers: tour.py keys states by their JSON text
        return ids.setdefault(tour.key(state), len(ids))

    with open(path, "w") as f:
        for kind in ("real", "perm", "bits"):
            sub = [e for e in edges if e["from"]["kind"] == kind]
            if not sub:
                raise vlib.ToolError("vacuous model: no transition for kind %s" % kind)
            dim = sub[0]["from"]["dim"]
            init = sid({"stack": [], "kind": kind, "dim": dim})
            small = [{"from": sid(e["from"]), "to": sid(e["to"]), "act": e["act"]} for e in sub]
            for acts in fast_tours(small, init, max_len):
                f.write(json.dumps({"run": nsc, "kind": kind, "dim": dim, "acts": acts}) + "\n")
                nsc += 1
                ncalls += len(acts)
    vlib.log("[tour] %s: %d transitions -> %d scenarios, %d calls" % (name, len(edges), nsc, ncalls))
    return path, edges


def fbits(x):
    import struct
    return str(struct.unpack("<Q", struct.pack("<d", x))[0])


def extreme_scenarios(ctx):
    """Finite coordinates more than 1e15 widths away from the domain (class far_below / far_above):
    one run of executions per (operator, side), single individual, single coordinate."""
    def setp(x):
        return {"op": "set_pop", "n": 999999, "p": [{"ev": 0, "x": [{"c": "raw", "k": 999999}]}], "raw": [[fbits(x)]]}
    runs = []
    for dom, xs in (("-1.0:1.0", (1e17, -1e17)), ("0.5:0.75", (1e308, -1e308))):
        for x in xs:
            for op in ("saturation", "cotnc", "toroidal", "mirror"):
                runs.append({"kind": "real", "dim": 1, "dom": [dom],
                             "acts": [setp(x), {"op": op, "n": 999999, "p": []}, {"op": op, "n": 999999, "p": []}]})
    path = os.path.join(ctx.work, "extreme.scen.ndjson")
    with open(path, "w") as f:
        for k, r in enumerate(runs):
            r["run"] = k
            f.write(json.dumps(r) + "\n")
    return path, len(runs)


def dom_shapes(dom):
    """Shape facts of a logged domain list (['lo:hi', ...])."""
    d = [tuple(float(v) for v in t.split(":")) for t in dom]
    facts = set()
    if len(d) < 2:
        return facts
    los, his, ws = [x[0] for x in d], [x[1] for x in d], [x[1] - x[0] for x in d]
    if len(set(los)) == 1 and len(set(his)) > 1:
        facts.add("eq_lo")
        if any(h < his[0] for h in his[1:]):
            facts.add("eq_lo_later_narrower")
        if any(h > his[0] for h in his[1:]):
            facts.add("eq_lo_later_wider")
    if len(set(his)) == 1 and len(set(los)) > 1:
        facts.add("eq_hi")
        if any(l > los[0] for l in los[1:]):
            facts.add("eq_hi_later_narrower")
        if any(l < los[0] for l in los[1:]):
            facts.add("eq_hi_later_wider")
    if any(w < ws[0] for w in ws[1:]):
        facts.add("later_narrower")
    if any(h <= 0 for h in his):
        facts.add("negative")
    if any(l < 0 < h for l, h in d):
        facts.add("mixed_sign")
    r = max(ws) / min(ws)
    if r >= 999:
        facts.add("ratio_1e3")
    if len(set(d)) == 1:
        facts.add("homogeneous")
    return facts


SHAPE_FACTS = ["eq_lo_later_narrower", "eq_lo_later_wider", "eq_hi_later_narrower", "eq_hi_later_wider",
               "later_narrower", "negative", "mixed_sign", "ratio_1e3", "homogeneous"]


def coverage(trace_path):
    """Tool error unless the recorded executions cover: bitstrings and permutations of every dimension around the
    word sizes, with every probability class, obtained in every way (every constructor incl. new_uniform,
    Initialization::initialize, the generator function); random_spread and every repair on domain lists with every
    shape fact, random_spread obtained in every way there."""
    import collections
    bits, perms, spread, repair = set(), set(), collections.Counter(), collections.Counter()
    dom = []
    for line in open(trace_path):
        r = json.loads(line)
        a = r["act"]
        if a["op"] == "reset":
            dom, dim = r.get("dom", []), a["n"]
            facts = dom_shapes(dom)
            continue
        if r["res"]["k"] != "ok":
            continue
        if a["op"] == "random_bitstring" and a["n"] >= 1:
            bits.add((dim, r.get("prob"), r.get("via")))
        elif a["op"] == "random_permutation" and a["n"] >= 1:
            perms.add((dim, r.get("via")))
        elif a["op"] == "random_spread" and a["n"] >= 1:
            for f in facts:
                spread[(f, r.get("via"))] += 1
        elif a["op"] in ("saturation", "toroidal", "mirror", "cotnc") and r["stack"] and r["stack"][-1]:
            for f in facts:
                repair[(f, a["op"])] += 1
    missing = [(d, p, v) for d in WORD_DIMS for p in PROB_CLASSES for v in INIT_VIAS if (d, p, v) not in bits]
    missing += [(d, "0.5", "new_uniform") for d in WORD_DIMS if (d, "0.5", "new_uniform") not in bits]
    missing += [(d, v) for d in WORD_DIMS for v in INIT_VIAS if (d, v) not in perms]
    missing += [(f, v) for f in SHAPE_FACTS for v in INIT_VIAS if not spread[(f, v)]]
    missing += [(f, op) for f in SHAPE_FACTS for op in ("saturation", "toroidal", "mirror", "cotnc") if not repair[(f, op)]]
    if missing:
        raise vlib.ToolError("vacuous random run: never executed: %s" % missing[:12])


def run(ctx):
    q = ctx.quick
    # (A) design check: big-step model on the lattice, and the loops step by step
    f_mc = 4 if q else 64
    ctx.tlc_mc("MC_Boundary", cfg_mc(1, f_mc, 2, False, masks=True), "mc", workers=4, timeout=1500)
    ctx.tlc_mc("MC_Boundary", cfg_mc(2, 1 if q else 2, 0 if q else 1, False, "McCands3" if q else "McCands"), "mc2", workers=4, timeout=1500)
    ctx.tlc_mc("BoundaryLoop", cfg_loop(4 if q else 16), "loop", workers=4, timeout=1500)
    # (B) spec -> impl: every transition, every lattice point, on the real components
    ex = ctx.tlc_mc("MC_Boundary", cfg_mc(1, 4 if q else 64, 2, True), "export", workers=1, timeout=1500)
    scen, edges = export_scenarios(ctx, ex["out"], "tour")
    vlib.vacuity(edges, "act.op", ["set_pop", "saturation", "toroidal", "mirror", "cotnc", "empty", "random_spread",
                                   "random_permutation", "random_bitstring"], "component")
    ex4 = ctx.tlc_mc("MC_Boundary", cfg_mc(4, 1 if q else 2, 0, True, "McCands1"), "export4", workers=1, timeout=1500)
    scen4, _ = export_scenarios(ctx, ex4["out"], "tour4")
    # two dimensions with initial populations of up to 2 (3) individuals: initialisation and repair where the
    # dimensions have different ranges
    ex2 = ctx.tlc_mc("MC_Boundary", cfg_mc(2, 1, 2 if q else 3, True, "McCands1"), "export2", workers=1, timeout=1500)
    scen2, edges2 = export_scenarios(ctx, ex2["out"], "tour2")
    vlib.vacuity(edges2, "act.op", ["set_pop", "saturation", "toroidal", "mirror", "cotnc", "random_spread"], "component")
    if not any(e["act"]["op"] == "random_spread" and e["act"]["n"] >= 2 for e in edges2):
        raise vlib.ToolError("vacuous model: no 2-dimensional random_spread of two individuals")
    wd = 1000 if q else 2000
    tr = os.path.join(ctx.work, "tour.trace.ndjson")
    ctx.harness("boundary", "replay", **{"in": scen, "out": tr, "domains": DOMAINS, "rot": 4, "seed": ctx.seed,
                                         "watchdog-ms": wd})
    ctx.validate("Trace_Boundary", CFG_TRACE, tr, "tour", DESCRIBE,
                 {"driver": "boundary", "mode": "replay", "domains": DOMAINS})
    # the 2- and 4-dimensional tours under every shape of domain list (one trace)
    scen24 = os.path.join(ctx.work, "tour24.scen.ndjson")
    with open(scen24, "w") as f:
        f.write(open(scen4).read() + open(scen2).read())
    all_lists = ";".join(SHAPE_LISTS.values())
    tr24 = os.path.join(ctx.work, "tour24.trace.ndjson")
    ctx.harness("boundary", "replay", **{"in": scen24, "out": tr24, "domains": all_lists, "rot": 4, "seed": ctx.seed,
                                         "watchdog-ms": wd})
    ctx.validate("Trace_Boundary", CFG_TRACE, tr24, "tour24", DESCRIBE,
                 {"driver": "boundary", "mode": "replay", "domains": all_lists})
    # extreme magnitudes (every finite solution): fixed cases, short watchdog
    escen, nruns = extreme_scenarios(ctx)
    tre = os.path.join(ctx.work, "extreme.trace.ndjson")
    ctx.harness("boundary", "replay", **{"in": escen, "out": tre, "rot": 1, "watchdog-ms": 700, "max-timeouts": 100})
    ctx.validate("Trace_Boundary", CFG_TRACE, tre, "extreme", DESCRIBE,
                 {"driver": "boundary", "mode": "replay", "domains": DOMAINS}, max_rejections=nruns)
    # (C) impl -> spec: random populations / domains / seeds, random initialisations
    n, ni = (400, 150) if q else (20000, 4000)
    tr2 = os.path.join(ctx.work, "random.trace.ndjson")
    ctx.harness("boundary", "random", out=tr2, seed=ctx.seed, n=n, grid=1, **{"n-init": ni, "watchdog-ms": 2000})
    coverage(tr2)
    ctx.validate("Trace_Boundary", CFG_TRACE, tr2, "random", DESCRIBE,
                 {"driver": "boundary", "mode": "random", "seed": ctx.seed, "n": n, "n_init": ni, "grid": 1})
    ctx.assumptions += [
        "design check: every lattice point up to %d widths on both sides (dimension 1, every bit-identity mask), "
        "dimension 2 with each lattice point paired with a shifted one on a smaller lattice; loops step by step up "
        "to %d widths" % (f_mc, 4 if q else 16),
        "lattice replay uses the dyadic domains [-1,1], [0,4], [-4,12], [0.5,0.75] where lo + k*w/8 and the code's "
        "arithmetic are exact",
        "a component execution that does not return within the watchdog (1-2 s for a microsecond computation) is "
        "recorded as reply `timeout`",
        "random coordinates reach up to 1e6 widths from the domain; beyond that only the fixed extreme cases "
        "(1e17 on [-1,1], 1e308 on [0.5,0.75], both signs) are exercised",
        "heterogeneous domains: dyadic lists %s under 4 rotations for the model's transitions; seeded lists of the "
        "shapes %s for the random and systematic runs; real-valued domains only (the harness problem is "
        "LimitedVectorProblem<Element = f64>; random_spread is generic in the element type)" %
        (json.dumps(SHAPE_LISTS), ", ".join(SHAPES)),
        "initialisers through Initialization::initialize / the generator functions are wrapped into unevaluated "
        "individuals and pushed by the harness (as src/components/initialization/mod.rs does); count, dimension "
        "and containment are the code's",
    ]
    return ctx.finish(RULE)


def replay(ctx, rp):
    meta = rp["meta"]
    tr = os.path.join(ctx.work, "replay.trace.ndjson")
    if meta.get("mode") == "random":
        ctx.harness("boundary", "random", out=tr, seed=meta["seed"], n=meta["n"], grid=meta.get("grid", 0),
                    **{"n-init": meta["n_init"], "watchdog-ms": 2000})
    else:
        hdr = rp.get("header") or {}
        sc = {"run": 0, "kind": hdr.get("kind", "real"), "dim": hdr.get("act", {}).get("n", 1), "acts": rp["acts"]}
        if hdr.get("dom"):
            sc["dom"] = hdr["dom"]
        if hdr.get("seed"):
            sc["seed"] = hdr["seed"]
        scen = os.path.join(ctx.work, "replay.scen.ndjson")
        with open(scen, "w") as f:
            f.write(json.dumps(sc) + "\n")
        ctx.harness("boundary", "replay", **{"in": scen, "out": tr, "domains": DOMAINS, "rot": 1, "watchdog-ms": 2000})
    ctx.validate("Trace_Boundary", CFG_TRACE, tr, "replay", DESCRIBE, meta)
    return ctx.finish(RULE)
