"""C06 — evaluation steps evaluate everyone once; the evaluation count is exact (Memory.tla, Run.tla)."""
import vlib
from checks import memlib, runlib

MANIFEST = {
    "modules": ["Memory", "Run"],
    "text": "Unit level: Memory.tla's evaluation step (sequential and rayon-parallel evaluator) keeps order and solutions, "
            "evaluates everyone with F, advances counter and objective-call count by exactly |population| (EvaluateExact, "
            "CountOnlyByEvaluate), and a configuration asking for an unregistered evaluator identifier fails in `require` "
            "with nothing executed; 'the REGISTERED evaluator' is modelled (RegisteredApplied): evaluators distinguishable by their "
            "number of objective calls are registered through insert_evaluator / insert_evaluator_as::<Global> / "
            "insert_evaluator_as::<A>, twice under one identifier (the one registered last counts), under two identifiers, "
            "by the state_init of a Scope::new_with of its own (shadowing the enclosing registration, or being the only one: "
            "the step must run), under the other identifier only, or nowhere (the scope fails before anything in it executes); "
            "model-checked exhaustively, then replayed (transition tour, random histories incl. empty "
            "populations) on the real PopulationEvaluator with a call-counting objective function. Template level: in every "
            "step of every run of the 21 templates the increase of the visible Evaluations counter must equal the number of "
            "objective invocations actually made (Run.tla clause C06: every step; evaluation steps: same solutions, same "
            "order, all evaluated, exactly |population| calls), and at the end reported evaluations = objective calls.",
    "technique": "TLA+ spec + TLC model checking + TLC trace validation (unit tours; step-observer traces of all template runs)",
    "design_ref": "DESIGN.md §6 C06, §4.1",
    "note": "rayon schedules are sampled (pool = default), the model's evaluation step is atomic; see C08 for schedule independence",
}

RULE = ("cases = (i) evaluation-related operations on real populations (transition tour + random histories), (ii) every "
        "component step of template runs (counter vs. real objective calls); non-trivial = projected state changed; "
        "distinct = distinct (projected state before, operation) pairs")


def run(ctx):
    q = ctx.quick
    memlib.unit(ctx, ["evaluate", "evaluate_missing", "evaluate_nested", "evaluate_with", "set_objective",
                      "register", "evaluate_id", "evaluate_scoped"], registrations=True)
    runlib.run_templates(ctx, ["C06"], seeds=[ctx.seed, ctx.seed + 1] if q else list(range(ctx.seed, ctx.seed + 5)),
                         iters=[0, 4] if q else [0, 1, 8, 30], evals=("seq", "par"))
    return ctx.finish(RULE)


def replay(ctx, rp):
    if rp["meta"].get("driver") == "memory":
        memlib.replay_unit(ctx, rp)
    else:
        runlib.replay(ctx, rp, ["C06"])
    return ctx.finish(RULE)
