"""X02 — beyond the listed properties: the black-hole components on prepared states (spec/Bh.tla).
Not a listed property: not in MANIFEST.json; `./check X02`."""
import json, os
import vlib

MANIFEST = None

PROPS = "SizeKept HorizonKeepsBest HorizonOnlyNear HorizonFarSafe MoveTowards"


def cfg_mc(pts, dom, maxn, export):
    s = ("SPECIFICATION Spec\nCONSTANTS\n  Pts <- %s\n  Dom <- %s\n  Objs = {0, 1, 2, 4}\n  MaxN = %d\nVIEW McView\n" % (pts, dom, maxn))
    s += "ACTION_CONSTRAINT PrintEdge\n" if export else "PROPERTY %s\n" % PROPS
    return s + "CHECK_DEADLOCK FALSE\n"


CFG_TRACE = ("SPECIFICATION TraceSpec\nCONSTANTS\n  Pts = {}\n  Dom = {}\n  Objs = {}\n  MaxN = 0\n"
             "POSTCONDITION TraceDone\nCHECK_DEADLOCK FALSE\n")

DESCRIBE = {
    "state": lambda r: [r["xs"], r["fs"], r["fb"]],
    "act": lambda r: r["op"],
    "is_reset": lambda r: False,
    "nontrivial": lambda r, before, after: True,
}

RULE = ("cases = one execution of EventHorizon / BlackHoleParticlesUpdate on a prepared state (integer positions and "
        "objective values, black-hole value); every (state, component) pair of the bounded model with several seeds, "
        "plus seeded random prepared states; distinct = distinct (state, component) pairs")


def run(ctx):
    q = ctx.quick
    seen, cases = set(), []
    import tour
    for pts, dom in (("P1", "D1"), ("P2", "D2s")):
        name = "1d" if pts == "P1" else "2d"
        ctx.tlc_mc("MC_Bh", cfg_mc(pts, dom, 3, False), "mc-" + name, workers=4 if q else 12, timeout=1500)
        ex = ctx.tlc_mc("MC_Bh", cfg_mc(pts, dom, 3, True), "export-" + name, workers=1, timeout=1500)
        for e in tour.parse_edges(ex["out"]):
            key = json.dumps([e["from"], e["act"]], sort_keys=True)
            if key not in seen:
                seen.add(key)
                cases.append({"from": e["from"], "act": e["act"]})
    if {c["act"] for c in cases} != {"horizon", "move"} or len(cases) < 500:
        raise vlib.ToolError("vacuous export: %d cases" % len(cases))
    if q:
        cases = cases[ctx.seed % 2::2]
    cpath = os.path.join(ctx.work, "bh.cases.ndjson")
    with open(cpath, "w") as f:
        for c in cases:
            f.write(json.dumps(c) + "\n")
    vlib.log("[case] bh: %d (state, component) pairs exported" % len(cases))
    tr = os.path.join(ctx.work, "bh-enum.trace.ndjson")
    ctx.harness("bh", "replay", **{"in": cpath, "out": tr, "seed": ctx.seed, "seeds": 2 if q else 4})
    ctx.validate("Trace_Bh", CFG_TRACE, tr, "bh-enum", DESCRIBE, {"driver": "bh"}, timeout=3000, max_rejections=6)
    tr = os.path.join(ctx.work, "bh-random.trace.ndjson")
    ctx.harness("bh", "random", out=tr, seed=ctx.seed, n=5000 if q else 50000)
    ctx.validate("Trace_Bh", CFG_TRACE, tr, "bh-random", DESCRIBE, {"driver": "bh"}, timeout=3000, max_rejections=6)
    ctx.assumptions += ["prepared states have integer positions and non-negative integer objective values",
                        "the move is judged by the per-candidate predicate tow[j] (closed interval between old position and "
                        "the position of a best individual j), the horizon by the model's exact radius decision"]
    return ctx.finish(RULE)


def replay(ctx, rp):
    a = rp["first_unmatched"]
    cpath = os.path.join(ctx.work, "replay.cases.ndjson")
    with open(cpath, "w") as f:
        f.write(json.dumps({"from": {"xs": a["xs"], "fs": a["fs"], "fb": a["fb"]}, "act": a["op"]}) + "\n")
    tr = os.path.join(ctx.work, "replay.trace.ndjson")
    ctx.harness("bh", "replay", **{"in": cpath, "out": tr, "seed": a["seed"], "seeds": 1})
    ctx.validate("Trace_Bh", CFG_TRACE, tr, "replay", DESCRIBE, rp["meta"])
    return ctx.finish(RULE)
