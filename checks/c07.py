"""C07 — best-so-far and elitist memories only improve and hold the true best (Memory.tla, Run.tla)."""
import vlib
from checks import memlib, runlib

MANIFEST = {
    "modules": ["Memory", "Run"],
    "text": "Unit level: Memory.tla models BestIndividual (strictly-better replacement, first minimum wins) and the elitist "
            "archive of capacity K (relation: the K smallest ranks of archive + population, members taken from them; ties "
            "either way) with re-insertion; TLC checks BestRules, ArchiveHoldsKBest (against a history of everything shown), "
            "NoDuplicateOnReinsert for all sequences of candidate populations over ranks with ties, duplicates and +inf, "
            "capacities 0..4 in random traces; transition tour + random histories replayed on the real components. Template "
            "level: in every step of every template run the recorded best only improves, changes only in the update "
            "component, follows the strict rule and covers its source population (Run.tla clause C07), and at the end of "
            "every run the reported best equals the minimum the instrumented objective function ever returned. The two known "
            "deviations are decided inside Run.tla; the ILS one names the single evaluation whose result is never offered (the "
            "perturbed solution's): Run.tla keeps the minimum over everything ELSE the objective function returned (per-record "
            "minimum `smin`) and accepts the deviation only if the reported best equals that -- a best that misses any other "
            "value (e.g. the results of the scoped local search) is a violation.",
    "technique": "TLA+ spec + TLC model checking + TLC trace validation (unit tours; step-observer traces of all template runs)",
    "design_ref": "DESIGN.md §6 C07, §4.1",
    "note": "objective values are projected to dense ranks per run (+inf distinguished)",
}

RULE = ("cases = (i) best/archive operations on real populations (transition tour + random histories, capacities 0..4), "
        "(ii) every component step and the end of template runs; non-trivial = projected state changed; distinct = distinct "
        "(projected state before, operation) pairs")


def run(ctx):
    q = ctx.quick
    memlib.unit(ctx, ["update_best", "init_run", "archive_update", "archive_into_population"])
    runlib.run_templates(ctx, ["C07"], seeds=[ctx.seed, ctx.seed + 1, ctx.seed + 2] if q else list(range(ctx.seed, ctx.seed + 6)),
                         iters=[4] if q else [1, 8, 30])
    # the firefly update evaluates intermediate positions itself (known finding KF_FireflyIntermediate_Best shows here)
    runlib.run_templates(ctx, ["C07"], seeds=list(range(ctx.seed, ctx.seed + (6 if q else 30))), iters=[8] if q else [1, 8, 40],
                         name="fa-runs", templates=["real_fa"], quick_grid=False)
    # chemical reactions drop the products of rejected reactions: long runs with many rejected reactions
    runlib.run_templates(ctx, ["C07"], seeds=list(range(ctx.seed, ctx.seed + (6 if q else 16))), iters=[40] if q else [150],
                         name="cro-runs", templates=["real_cro"], quick_grid=False)
    return ctx.finish(RULE)


def replay(ctx, rp):
    if rp["meta"].get("driver") == "memory":
        memlib.replay_unit(ctx, rp)
    else:
        runlib.replay(ctx, rp, ["C07"])
    return ctx.finish(RULE)
